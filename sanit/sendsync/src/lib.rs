//! C18, static part: `Regex` must be Send + Sync + Clone. Failing to compile is the violation.
fn assert_traits<T: Send + Sync + Clone + 'static>() {}
pub fn regex_is_send_sync_clone() {
    assert_traits::<fancy_regex::Regex>();
}
