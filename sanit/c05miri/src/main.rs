//! C05, sanitizer slice: searches that execute `Delegate` with groups at multi-byte offsets,
//! look-behind over multi-byte characters, multi-byte backreferences, and the iterators /
//! split / replace on top of them, interpreted by Miri (undefined behaviour in dependency code
//! reached through fancy-regex's calls would be reported). usage: c05miri <shard> <nshards>
use fancy_regex::Regex;

const CASES: &[(&str, &str)] = &[
    (r"(é)(€)?(?=😀)", "aé😀é€😀"),
    (r"(?<=é)(a|€)+", "éa€aé€"),
    (r"(é|😀)\1", "éé😀😀é"),
    (r"(?>(é)|(€))*\b", "é€é a"),
    (r"(?:(é)|(a))+(?!€)", "éa€aé"),
    (r"(?<!😀)(.)(?=\1)", "😀aaéé"),
    (r"(?<=(€))(a)?\1", "€€a€"),
    (r"((é)(a)?){2}\2", "éaéé"),
    (r"\G(é|a)", "éaéb"),
    (r"(é)\Ka(?=(€)?)", "éa€éa"),
    (r"(?((?=é))(é)a|(€))", "éa€"),
    (r"(?:(a)|é)*?€", "aéa€"),
    (r"(é*)(?=€)|😀", "éé€😀"),
    (r"(?<=a😀)(é)?", "a😀éa😀"),
    (r"(é)?(?(1)€|a)", "é€a"),
    (r"(?=(é|€))\1+?", "éé€€"),
];

fn bad(t: &str, a: usize, b: usize) -> bool {
    a > b || b > t.len() || !t.is_char_boundary(a) || !t.is_char_boundary(b)
}

fn main() {
    let args: Vec<String> = std::env::args().collect();
    let shard: usize = args.get(1).and_then(|s| s.parse().ok()).unwrap_or(0);
    let nshards: usize = args.get(2).and_then(|s| s.parse().ok()).unwrap_or(1);
    let mut ops = 0u64;
    let mut spans = 0u64;
    for (i, (p, t)) in CASES.iter().enumerate() {
        if i % nshards != shard {
            continue;
        }
        // a fixture the tree under test rejects is skipped and reported, never a crash of the monitor
        let re = match Regex::new(p) {
            Ok(re) => re,
            Err(e) => {
                println!("c05miri: case {:?} does not compile ({}), skipped", p, e);
                continue;
            }
        };
        for from in (0..=t.len()).filter(|&k| t.is_char_boundary(k)) {
            ops += 1;
            // (an Err is a legal outcome for C05; whether it is justified is C07's business)
            if let Ok(Some(c)) = re.captures_from_pos(t, from) {
                for g in 0..c.len() {
                    if let Some(m) = c.get(g) {
                        assert!(!bad(t, m.start(), m.end()), "bad span {}..{} for {} on {}", m.start(), m.end(), p, t);
                        let _ = m.as_str();
                        spans += 1;
                    }
                }
            }
        }
        for m in re.find_iter(t) {
            let Ok(m) = m else { break };
            assert!(!bad(t, m.start(), m.end()));
            spans += 1;
        }
        let pieces: Vec<&str> = re.split(t).map_while(|x| x.ok()).collect();
        ops += 3;
        assert!(pieces.concat().len() <= t.len());
        if let Ok(replaced) = re.try_replacen(t, 0, "<$0|$1>") {
            assert!(!replaced.is_empty() || t.is_empty());
        }
    }
    println!("c05miri shard {}/{}: {} operations, {} spans validated", shard, nshards, ops, spans);
}
