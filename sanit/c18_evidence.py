#!/usr/bin/env python3
"""Assembles /verif/evidence/C18.json from the legs' result files and prints the verdict."""
import json, os, sys, glob
root, work, tier, seed, static, native, tsan, miri, wall = sys.argv[1:10]
seed = int(seed)
def load(p):
    try:
        return json.load(open(p))
    except Exception:
        return None
nat = load(os.path.join(work, "native.json"))
ts = load(os.path.join(work, "tsan.json"))
miris = [m for m in (load(p) for p in sorted(glob.glob(os.path.join(work, "miri-[0-9]*.json")))) if m]
violations = []
inconclusive = []
def replay(name, obj):
    p = os.path.join(root, "replays", "C18-%s-%s" % (tier, name))
    if not os.path.exists(p):
        with open(p, "w") as f:
            f.write(obj if isinstance(obj, str) else json.dumps(obj, indent=1))
    return p
if static == "violated":
    violations.append(("static: Regex is not Send + Sync + Clone (compiler output)", os.path.join(root, "replays", "C18-%s-static.txt" % tier)))
elif static != "ok":
    inconclusive.append("static assertion crate did not build (not a trait error)")
if native == "violated":
    violations.append(("native stress: %d mismatching / %d panicking calls, e.g. %s" % (nat["mismatches"], nat["panics"], (nat["mismatch_examples"] + nat["panic_examples"])[:1]), replay("native.json", nat)))
elif native.startswith("watchdog2"):
    violations.append(("native stress: a round did not finish within 120 s twice in a row (deadlock)", replay("native.json", nat or {})))
elif native != "ok":
    inconclusive.append("native stress leg: " + native)
if tsan == "violated":
    violations.append(("ThreadSanitizer reported a data race", os.path.join(root, "replays", "C18-%s-tsan.txt" % tier)))
elif tsan == "mismatch":
    violations.append(("stress under ThreadSanitizer: results differ from the single-threaded run", replay("tsan.json", ts or {})))
elif tsan != "ok":
    inconclusive.append("ThreadSanitizer leg: " + tsan)
if miri == "violated":
    violations.append(("Miri reported undefined behaviour or a data race", os.path.join(root, "replays", "C18-%s-miri.txt" % tier)))
elif miri == "mismatch":
    violations.append(("stress under Miri: results differ from the single-threaded run", os.path.join(root, "replays", "C18-%s-miri.txt" % tier)))
elif miri not in ("ok", "skipped"):
    inconclusive.append("Miri leg: " + miri)
# activity thresholds
if nat and native == "ok" and nat["overlapped_calls"] == 0:
    inconclusive.append("no overlap observed: no two threads were inside a search of the same Regex at once")
calls = (nat or {}).get("calls", 0) + (ts or {}).get("calls", 0) + sum(m.get("calls", 0) for m in miris)
distinct = (nat or {}).get("distinct_triples_compared_under_overlap", 0)
code = 1 if violations else (2 if inconclusive else 0)
ev = {
 "property_id": "C18", "tier": tier, "seed": seed, "level": "exploration",
 "coverage": {
  "evaluations": max(calls, 1), "distinct_nontrivial": distinct,
  "rule": "corpus of %s patterns (wrapped: literal, lazy DFA, one-pass, captures; VM: look-around, backrefs, atomic, possessive, conditionals, \\K, \\G, named groups) x %s texts x {captures, find_iter, is_match, try_replacen with a template, split}; a single-threaded pass records every result; then for N in 2,4,8,16 threads released by a barrier hammer (a) one shared &Regex, (b) clones, (c) a mix, each following a seeded schedule and comparing EVERY result with the table; an in-flight counter per Regex records calls that overlapped another thread's call on the same Regex. Cross-text rounds: 6-16 threads search DIFFERENT long texts through one Regex (and clones) at the same time - texts that share a prefix of hundreds of failed attempts and differ in what the delegated piece behind it finds, and texts that reach the delegated pieces of two alternatives in opposite order - each result compared with the single-threaded one, every thread back within 60 s. Legs: static Send+Sync+Clone assertion crate; native; ThreadSanitizer build (-Zsanitizer=thread -Zbuild-std, halt_on_error); thorough: Miri, 16 seeds x 3 threads on a wrapped and a VM pattern. Non-trivial: distinct (pattern, text, api) triples compared while another thread was inside the same Regex." % ((nat or {}).get("patterns", "?"), (nat or {}).get("texts", "?")),
  "samples": [(nat or {}).get("sample", "native leg did not run"), {"tsan_calls": (ts or {}).get("calls"), "miri_runs": len(miris)}],
  "exhaustive": False,
  "legs": {"static": static, "native": native, "tsan": tsan, "miri": miri},
  "native": nat, "tsan": ts, "miri": {"runs": len(miris), "calls": sum(m.get("calls", 0) for m in miris), "overlapped_calls": sum(m.get("overlapped_calls", 0) for m in miris)},
  "inconclusive_reasons": inconclusive,
 },
 "assumptions": ["interleavings are those the OS scheduler, ThreadSanitizer's runtime and 16 Miri seeds produce - no claim about all schedules", "Miri cannot cross FFI; the corpus under Miri is two ASCII patterns"],
 "wall_s": round(float(wall), 2), "violations": len(violations),
 "verdict": {0: "held on everything explored", 1: "violated", 2: "inconclusive"}[code],
}
os.makedirs(os.path.join(root, "evidence"), exist_ok=True)
json.dump(ev, open(os.path.join(root, "evidence", "C18.json"), "w"), indent=1, ensure_ascii=False)
for what, path in violations:
    print("VIOLATION property=C18 replay=%s" % path)
    print("  " + what)
if not violations:
    for r in inconclusive:
        print("INCONCLUSIVE property=C18 " + r)
print("C18 %s seed=%d calls=%d distinct_nontrivial=%d legs: static=%s native=%s tsan=%s miri=%s wall=%ss -> %s" % (tier, seed, calls, distinct, static, native, tsan, miri, ev["wall_s"], {0: "HELD", 1: "VIOLATED", 2: "INCONCLUSIVE"}[code]))
sys.exit(code)
