//! C18 stress monitor: many threads search through one shared `Regex` / through clones and every
//! result is compared with the table a single-threaded pass recorded. The same source is built
//! natively, under ThreadSanitizer and (tiny volume) under Miri.
//!
//! usage: c18stress <mode: native|tsan|miri> <target-calls> <seed> <out.json>
use fancy_regex::{Captures, Regex};
use std::collections::BTreeSet;
use std::sync::atomic::{AtomicU64, AtomicUsize, Ordering};
use std::sync::{mpsc, Arc, Barrier};
use std::time::{Duration, Instant};

const PATTERNS: &[&str] = &[
    // wrapped route: literal / lazy DFA / one-pass / captures
    r"abc",
    r"\w+",
    r"(\w+)@(\w+)\.com",
    r"(?i)hello|world",
    r"^(\d{1,3})(?:\.(\d{1,3})){3}$",
    r"[a-c]+?x",
    r"(a|ab)(c|bcd)(d*)",
    r"(?m)^\s*(\S+)\s*=\s*(.*)$",
    r"é+|😀",
    r"(?s).{2,5}z",
    r"",
    r"x*",
    // VM route: look-around, backrefs, atomic, delegates with groups, conditionals, \K, \G
    r"(\w+) \1",
    r"\b(\w)(\w)?\2?\1\b",
    r"(?<=\$)\d+(?=\.)",
    r"(?<!a)b+(?!c)",
    r"(?>a+)b|a+c",
    r"(a*)*+b?",
    r"(?:(a)|b)*\1",
    r"(a)?(?(1)b|c)+",
    r"(?((?=\d))\d+|[a-z]+)!",
    r"foo\Kbar",
    r"\G\d",
    r"(?=(\w+))\1:(\d+)",
    r"((?:ab|a)(?=b)|b)+?c",
    r"(?<first>\w)(?<second>\w)\k<second>\k<first>",
    r"^(?:(?!cat).)*$",
    r"(é)(?<=é)\1?(😀)?",
    r"\b\w+(?<!ing)\b",
    r"(x+x+)+y",
    r"(?i)(?=[a-z]*\d)[a-z\d]{4,}",
    r"(a{1,2}?)(?>b|bc)\b",
    // \G with empty matches before the end of the text: the iterators must tell the VM
    // "an empty match was skipped" per search, not per Regex
    r"\G(?:(\w+)|,?)",
    r"\G\d*",
    r"(?:\G|;)(\w\w)?",
    // lazy loops over bodies that can match the empty string (the rarest loop instruction): a
    // clone must run them exactly like the original
    r"(\w\w)\1*?(?!\d)",
    r"(a)\1*?b?",
    r"(?:(?=a)a|b?)+?c",
    r"(?:\b|x)*?y",
    // a delegated piece that holds a start anchor AND a group: it must see the text in front of
    // the search position whichever thread runs it
    r"(?m)^(\d{3})(?=,)",
    r"(?m)^(\w+)(?=:)",
    r"\A(a+)\b",
];

const TEXTS: &[&str] = &[
    "",
    "nananana1",
    "a1234,b5678,\n901,a1234,b5678,\n902,",
    "key:val k2:v2\nk3:v3 aaa:b",
    "aab aaa xxy bac",
    "abc",
    "hello world hello",
    "HeLLo World",
    "mirror mirror on the wall",
    "user@example.com, other@site.com",
    "192.168.1.255",
    "key = value\n  other=thing\n",
    "ééé😀é",
    "price: $100.50 and $7.",
    "abbbc abbd bbb",
    "aaaaab aaac",
    "aabab",
    "ab abc abcd bcd",
    "abbc cb acb",
    "123!abc!1a!",
    "foobar foobaz",
    "12 34",
    "word:42 other:7",
    "abab babc abc",
    "abba noon otto abcd",
    "the cat sat\nthe dog ran",
    "é😀 éé",
    "running jumps sing",
    "xxxxxxxxxxxxxxy xxxxxxxxxxxxxxxxxxxx",
    "abc1 ab1c2 abcd",
    "ab abc aab",
    "zzzzz az bz",
    "a=b",
    "😀😀😀",
];

/// (pattern, text) pairs that need many backtracks: each is additionally built with a backtrack
/// limit just 50% above what its single-threaded search needs, so that any per-Regex (rather than
/// per-search) accounting of the limit shows up as a changed result under concurrency.
const TIGHT: &[(&str, &str)] = &[
    (r"(\w+) (\w+) \2 \1", "abba noon otto abcd the cat sat on the mat on the"),
    (r"(x+x+)+(?=y)", "xxxxxxxxxxxx!"),
    (r"\b(\w)(\w)?\2?\1\b", "abcd efgh ijkl mnop abba"),
    (r"(?:(a)|b)*\1c", "aababaababaabab"),
];

fn needed_limit(p: &str, t: &str) -> Option<usize> {
    let reference = call(&Regex::new(p).ok()?, t, 0);
    let with = |l: usize| fancy_regex::RegexBuilder::new(p).backtrack_limit(l).build().map(|r| call(&r, t, 0) == reference).unwrap_or(false);
    if !with(2_000_000) {
        return None;
    }
    let (mut lo, mut hi) = (0usize, 2_000_000usize); // invariant: with(hi), !with(lo - 1)
    while lo < hi {
        let mid = (lo + hi) / 2;
        if with(mid) {
            hi = mid;
        } else {
            lo = mid + 1;
        }
    }
    Some(lo)
}

const APIS: usize = 5;

fn caps_str(c: &Captures<'_>) -> String {
    let mut s = String::new();
    for i in 0..c.len() {
        match c.get(i) {
            Some(m) => s.push_str(&format!("{}..{};", m.start(), m.end())),
            None => s.push_str("-;"),
        }
    }
    s
}

/// One API call rendered as a comparable string.
fn call(re: &Regex, text: &str, api: usize) -> String {
    match api {
        0 => match re.captures(text) {
            Ok(Some(c)) => caps_str(&c),
            Ok(None) => "none".into(),
            Err(e) => format!("err {:?}", e),
        },
        1 => {
            let mut s = String::new();
            for m in re.find_iter(text).take(64) {
                match m {
                    Ok(m) => s.push_str(&format!("{}..{};", m.start(), m.end())),
                    Err(e) => {
                        s.push_str(&format!("err {:?}", e));
                        break;
                    }
                }
            }
            s
        }
        2 => format!("{:?}", re.is_match(text)),
        3 => match re.try_replacen(text, 0, "<$0|$1>") {
            Ok(c) => c.into_owned(),
            Err(e) => format!("err {:?}", e),
        },
        _ => {
            let mut s = String::new();
            for p in re.split(text).take(64) {
                match p {
                    Ok(p) => {
                        s.push_str(p);
                        s.push('|');
                    }
                    Err(e) => {
                        s.push_str(&format!("err {:?}", e));
                        break;
                    }
                }
            }
            s
        }
    }
}

struct Rng(u64);
impl Rng {
    fn next(&mut self) -> u64 {
        self.0 = self.0.wrapping_add(0x9E3779B97F4A7C15);
        let mut z = self.0;
        z = (z ^ (z >> 30)).wrapping_mul(0xBF58476D1CE4E5B9);
        z = (z ^ (z >> 27)).wrapping_mul(0x94D049BB133111EB);
        z ^ (z >> 31)
    }
    fn below(&mut self, n: usize) -> usize {
        (self.next() % n as u64) as usize
    }
}

struct Shared {
    regexes: Vec<Regex>,
    table: Vec<String>,
    inflight: Vec<AtomicUsize>,
    np: usize,
    nt: usize,
    pats: Vec<&'static str>,
    texts: Vec<&'static str>,
    napis: usize,
}

#[derive(Default)]
struct ThreadResult {
    calls: u64,
    overlapped: u64,
    triples_overlapped: BTreeSet<usize>,
    mismatches: Vec<String>,
    panics: Vec<String>,
}

fn worker(sh: &Shared, mode: usize, tid: usize, seed: u64, calls: u64, barrier: &Barrier, peak: &AtomicU64, hot: &[usize]) -> ThreadResult {
    let mut r = ThreadResult::default();
    let mut rng = Rng(seed ^ (tid as u64 + 1).wrapping_mul(0xABCDEF));
    // mode 0: all share; 1: all clones; 2: odd threads clone
    let own: Option<Vec<Regex>> = if mode == 1 || (mode == 2 && tid % 2 == 1) { Some(sh.regexes.clone()) } else { None };
    barrier.wait();
    for _ in 0..calls {
        // few patterns at a time so that threads really meet on the same Regex
        let p = if hot.is_empty() { rng.below(sh.np) } else { hot[rng.below(hot.len())] };
        let t = rng.below(sh.nt);
        let api = rng.below(sh.napis);
        let re = match &own {
            Some(v) => &v[p],
            None => &sh.regexes[p],
        };
        let before = sh.inflight[p].fetch_add(1, Ordering::AcqRel);
        peak.fetch_max(before as u64 + 1, Ordering::Relaxed);
        let got = std::panic::catch_unwind(std::panic::AssertUnwindSafe(|| call(re, sh.texts[t], api)));
        let after = sh.inflight[p].fetch_sub(1, Ordering::AcqRel);
        r.calls += 1;
        let idx = (p * sh.nt + t) * APIS + api;
        if before > 0 || after > 1 {
            r.overlapped += 1;
            r.triples_overlapped.insert(idx);
        }
        match got {
            Ok(s) => {
                if s != sh.table[idx] && r.mismatches.len() < 5 {
                    r.mismatches.push(format!("pattern {:?} text {:?} api {} thread {} mode {}: got {:?}, single-threaded run gave {:?}", sh.pats[p], sh.texts[t], api, tid, mode, s, sh.table[idx]));
                } else if s != sh.table[idx] {
                    r.mismatches.push(String::new());
                }
            }
            Err(_) => r.panics.push(format!("pattern {:?} text {:?} api {} thread {}", sh.pats[p], sh.texts[t], api, tid)),
        }
    }
    r
}

fn main() {
    std::panic::set_hook(Box::new(|_| {}));
    let args: Vec<String> = std::env::args().collect();
    let mode = args.get(1).map(|s| s.as_str()).unwrap_or("native").to_string();
    let target: u64 = args.get(2).and_then(|s| s.parse().ok()).unwrap_or(200_000);
    let seed: u64 = args.get(3).and_then(|s| s.parse().ok()).unwrap_or(1);
    let out = args.get(4).cloned();
    let t0 = Instant::now();
    let (np, nt, thread_counts): (usize, usize, Vec<usize>) = match mode.as_str() {
        "miri" => (2, 2, vec![3]),
        "tsan" => (PATTERNS.len(), TEXTS.len(), vec![4, 8]),
        _ => (PATTERNS.len(), TEXTS.len(), vec![2, 4, 8, 16]),
    };
    // under Miri: one wrapped and one VM pattern, ASCII only (Unicode tables take minutes to interpret)
    let pats: Vec<&'static str> = if mode == "miri" { vec!["(a|ab)(c|bcd)(d*)", "(?>a+)b|(a+)c\\1?"] } else { PATTERNS.to_vec() };
    let texts: Vec<&'static str> = if mode == "miri" { vec!["abcd", "aacaa"] } else { TEXTS.to_vec() };
    let regexes: Vec<Regex> = pats
        .iter()
        .map(|p| match Regex::new(p) {
            Ok(r) => r,
            Err(e) => {
                eprintln!("c18stress: corpus pattern {:?} does not compile: {}", p, e);
                std::process::exit(2);
            }
        })
        .collect();
    // tight-limit twins (not under Miri: calibration needs ~20 builds per pair)
    let mut regexes = regexes;
    let mut pats = pats;
    let mut texts = texts;
    let mut tight_info = vec![];
    if mode != "miri" {
        for (p, t) in TIGHT {
            if let Some(need) = needed_limit(p, t) {
                let limit = need + need / 2 + 5;
                if let Ok(r) = fancy_regex::RegexBuilder::new(p).backtrack_limit(limit).build() {
                    regexes.push(r);
                    pats.push(p);
                    if !texts.contains(t) {
                        texts.push(t);
                    }
                    tight_info.push(format!("{} on {:?}: needs {} backtracks, limit {}", p, t, need, limit));
                }
            }
        }
    }
    let (np, nt) = (regexes.len(), texts.len());
    // a clone is the same program (VM-compiled patterns: instruction listing of original and clone)
    let mut clone_diffs: Vec<String> = vec![];
    let mut clone_programs_compared = 0u64;
    if mode != "miri" {
        struct Dbg<'a>(&'a Regex);
        impl std::fmt::Display for Dbg<'_> {
            fn fmt(&self, f: &mut std::fmt::Formatter<'_>) -> std::fmt::Result {
                self.0.debug_print(f)
            }
        }
        for (i, re) in regexes.iter().enumerate() {
            let a = format!("{}", Dbg(re));
            if a.starts_with("wrapped") {
                continue;
            }
            let b = format!("{}", Dbg(&re.clone()));
            clone_programs_compared += 1;
            if a != b {
                let (la, lb) = a.lines().zip(b.lines()).find(|(x, y)| x != y).unwrap_or(("<length differs>", ""));
                clone_diffs.push(format!("CLONE: the clone of {:?} is a different program: original {:?}, clone {:?}", pats[i], la, lb));
            }
        }
    }
    // single-threaded table
    let mut table = Vec::with_capacity(np * nt * APIS);
    for re in &regexes {
        for t in &texts {
            for api in 0..APIS {
                // under Miri only the first three APIs are exercised
                table.push(if mode == "miri" && api >= 3 { String::new() } else { call(re, t, api) });
            }
        }
    }
    // the table must be reproducible single-threaded before it can judge anything
    for (pi, re) in regexes.iter().enumerate().filter(|_| mode != "miri") {
        for (ti, t) in texts.iter().enumerate() {
            for api in 0..APIS {
                assert_eq!(call(re, t, api), table[(pi * nt + ti) * APIS + api], "single-threaded result not reproducible");
            }
        }
    }
    let sh = Arc::new(Shared { regexes, table, inflight: (0..np).map(|_| AtomicUsize::new(0)).collect(), np, nt, pats: pats.clone(), texts: texts.clone(), napis: if mode == "miri" { 3 } else { APIS } });
    let mut total = ThreadResult::default();
    let peak = Arc::new(AtomicU64::new(0));
    let mut rounds = 0u64;
    let mut watchdog = false;
    let mut round_seed = seed;
    'outer: while total.calls < target.max(1) {
        for &n in &thread_counts {
            for m in 0..3usize {
                rounds += 1;
                round_seed = round_seed.wrapping_mul(6364136223846793005).wrapping_add(1442695040888963407);
                let per_thread = (target / (thread_counts.len() as u64 * 3 * n as u64)).clamp(if mode == "miri" { 5 } else { 200 }, 50_000);
                let barrier = Arc::new(Barrier::new(n));
                let (tx, rx) = mpsc::channel();
                for tid in 0..n {
                    let (sh, barrier, tx, peak) = (sh.clone(), barrier.clone(), tx.clone(), peak.clone());
                    let rs = round_seed;
                    // every other round all threads work on the same three patterns (always
                    // including one of the last ones: tight limits and \G), so that they really
                    // meet inside one Regex
                    let hot: Vec<usize> = if rounds % 2 == 0 {
                        let mut r = Rng(round_seed);
                        vec![r.below(np), r.below(np), np - 1 - r.below(7.min(np))]
                    } else {
                        vec![]
                    };
                    std::thread::spawn(move || {
                        let r = worker(&sh, m, tid, rs, per_thread, &barrier, &peak, &hot);
                        let _ = tx.send(r);
                    });
                }
                drop(tx);
                let deadline = Instant::now() + Duration::from_secs(if mode == "native" { 120 } else { 900 });
                for _ in 0..n {
                    match rx.recv_timeout(deadline.saturating_duration_since(Instant::now())) {
                        Ok(r) => {
                            total.calls += r.calls;
                            total.overlapped += r.overlapped;
                            total.triples_overlapped.extend(r.triples_overlapped);
                            total.mismatches.extend(r.mismatches);
                            total.panics.extend(r.panics);
                        }
                        Err(_) => {
                            watchdog = true;
                            break 'outer;
                        }
                    }
                }
                if mode == "miri" {
                    break;
                }
            }
        }
        if mode == "miri" {
            break;
        }
    }
    // cold-start rounds: a freshly compiled Regex whose very first searches come from several
    // threads at once (lazily initialised per-Regex state must not be observable half-built)
    let mut cold_rounds = 0u64;
    if mode != "miri" && !watchdog {
        let n_cold = if mode == "tsan" { 150 } else { (target / 1500).clamp(300, 20_000) };
        let mut rng = Rng(seed ^ 0xC01D);
        for _ in 0..n_cold {
            let p = rng.below(PATTERNS.len().min(np));
            let Ok(fresh) = Regex::new(sh.pats[p]) else { continue };
            let fresh = Arc::new(fresh);
            let n = 2 + rng.below(5);
            let barrier = Arc::new(Barrier::new(n));
            let (tx, rx) = mpsc::channel();
            for tid in 0..n {
                let (fresh, barrier, tx, sh) = (fresh.clone(), barrier.clone(), tx.clone(), sh.clone());
                let t = rng.below(nt);
                let api = rng.below(APIS);
                std::thread::spawn(move || {
                    barrier.wait();
                    let got = std::panic::catch_unwind(std::panic::AssertUnwindSafe(|| call(&fresh, sh.texts[t], api)));
                    let idx = (p * sh.nt + t) * APIS + api;
                    let bad = match got {
                        Ok(s) if s == sh.table[idx] => None,
                        Ok(s) => Some(format!("COLD START: pattern {:?} text {:?} api {} thread {}: got {:?}, single-threaded run gave {:?}", sh.pats[p], sh.texts[t], api, tid, s, sh.table[idx])),
                        Err(_) => Some(format!("COLD START: pattern {:?} text {:?} api {} thread {} panicked", sh.pats[p], sh.texts[t], api, tid)),
                    };
                    let _ = tx.send(bad);
                });
            }
            drop(tx);
            for _ in 0..n {
                match rx.recv_timeout(Duration::from_secs(120)) {
                    Ok(Some(m)) => total.mismatches.push(m),
                    Ok(None) => {}
                    Err(_) => {
                        watchdog = true;
                        break;
                    }
                }
                total.calls += 1;
            }
            cold_rounds += 1;
        }
    }
    // long-search rounds: many threads, each a few searches of about a millisecond on a 5 kB
    // text through one Regex (then through clones), all released together - every thread must
    // come back (admission control / pooled state with a lost wake-up shows only here)
    let mut long_rounds = 0u64;
    if mode == "native" && !watchdog {
        // no two equal words in a row: every search is ONE long VM run over the whole text
        let words = ["alpha", "beta", "gamma", "delta", "eps", "zeta", "eta", "theta"];
        let mut rng = Rng(seed ^ 0x10A6);
        let mut long_text = String::new();
        let mut prev = usize::MAX;
        while long_text.len() < 5000 {
            let mut w = rng.below(words.len());
            if w == prev {
                w = (w + 1) % words.len();
            }
            prev = w;
            long_text.push_str(words[w]);
            long_text.push(if rng.below(9) == 0 { '\n' } else { ' ' });
        }
        let long_text: Arc<String> = Arc::new(long_text);
        for (pi, pat) in [r"\b(\w+)\s+\1\b", r"(?<![a-z])(\w+)(?=\s+\1\b)"].iter().enumerate() {
            let Ok(re) = Regex::new(pat) else { continue };
            let re = Arc::new(re);
            let want = [call(&re, &long_text, 2), call(&re, &long_text, 0)];
            let n_rounds = (target / 40_000).clamp(6, 40);
            for round in 0..n_rounds {
                let n = [16usize, 24, 32, 12][(round % 4) as usize];
                let barrier = Arc::new(Barrier::new(n));
                let (tx, rx) = mpsc::channel();
                for tid in 0..n {
                    let (re, barrier, tx, text, want) = (re.clone(), barrier.clone(), tx.clone(), long_text.clone(), want.clone());
                    let use_clone = round % 2 == 1 && tid % 2 == 1;
                    std::thread::spawn(move || {
                        let own = if use_clone { Some((*re).clone()) } else { None };
                        let r: &Regex = own.as_ref().unwrap_or(&re);
                        barrier.wait();
                        let mut bad = None;
                        for k in 0..3usize {
                            let api = [2usize, 0][k % 2];
                            match std::panic::catch_unwind(std::panic::AssertUnwindSafe(|| call(r, &text, api))) {
                                Ok(s) if s == want[k % 2] => {}
                                Ok(_) => bad = Some(format!("LONG SEARCH: pattern {} thread {}: a search over the 5 kB text differs from the single-threaded run", pi, tid)),
                                Err(_) => bad = Some(format!("LONG SEARCH: pattern {} thread {} panicked", pi, tid)),
                            }
                        }
                        let _ = tx.send(bad);
                    });
                }
                drop(tx);
                for _ in 0..n {
                    match rx.recv_timeout(Duration::from_secs(60)) {
                        Ok(Some(m)) => total.mismatches.push(m),
                        Ok(None) => {}
                        Err(_) => {
                            watchdog = true;
                            eprintln!("c18stress: long-search round {} with {} threads: a thread did not come back within 60 s", round, n);
                            break;
                        }
                    }
                    total.calls += 3;
                }
                long_rounds += 1;
                if watchdog {
                    break;
                }
            }
            if watchdog {
                break;
            }
        }
    }
    // cross-text rounds: one Regex (and clones), threads searching DIFFERENT long texts at the same
    // time - texts that agree on a long prefix and differ in what a delegated piece finds behind
    // it, and texts that reach the delegated pieces of two alternatives in opposite order. State
    // that is per search must not be visible to the neighbour, and nobody may wait for the other.
    let mut cross_rounds = 0u64;
    if mode == "native" && !watchdog {
        let blanks = |n: usize| " ".repeat(n);
        let cases: Vec<(&str, Vec<String>)> = vec![
            (r"(\w+)-\1", vec![format!("{}ab-ab", blanks(700)), blanks(4000), format!("{}ab-ac ab-ab", blanks(699))]),
            (r"(?:<\w+(?=>)|\[\d+(?=\]))", vec![format!("<{} [{}]", "a".repeat(3000), "1".repeat(3000)), format!("[{} <{}>", "1".repeat(3000), "a".repeat(3000))]),
            (r"(?:(a+)(?=b)|(b+)(?=a))\b|x(?!\1)", vec![format!("{}b {}", "a".repeat(2000), "b".repeat(2000)), format!("{}a {}", "b".repeat(2000), "a".repeat(2000)), format!("{}x", blanks(3000))]),
        ];
        'cases: for (ci, (pat, texts)) in cases.iter().enumerate() {
            let Ok(re) = Regex::new(pat) else { continue };
            let re = Arc::new(re);
            let texts: Arc<Vec<String>> = Arc::new(texts.clone());
            let want: Arc<Vec<[String; 2]>> = Arc::new(texts.iter().map(|t| [call(&re, t, 0), call(&re, t, 1)]).collect());
            let n_rounds = (target / 40_000).clamp(8, 60);
            for round in 0..n_rounds {
                let n = [8usize, 16, 12, 6][(round % 4) as usize];
                let barrier = Arc::new(Barrier::new(n));
                let (tx, rx) = mpsc::channel();
                for tid in 0..n {
                    let (re, barrier, tx, texts, want) = (re.clone(), barrier.clone(), tx.clone(), texts.clone(), want.clone());
                    let use_clone = round % 3 == 2 && tid % 2 == 1;
                    std::thread::spawn(move || {
                        let own = if use_clone { Some((*re).clone()) } else { None };
                        let r: &Regex = own.as_ref().unwrap_or(&re);
                        let ti = (tid + round as usize) % texts.len();
                        barrier.wait();
                        let mut bad = None;
                        for k in 0..4usize {
                            match std::panic::catch_unwind(std::panic::AssertUnwindSafe(|| call(r, &texts[ti], k % 2))) {
                                Ok(s) if s == want[ti][k % 2] => {}
                                Ok(s) => bad = Some(format!("CROSS TEXT: case {} text {} thread {}{}: got {:.80}, the single-threaded run gave {:.80}", ci, ti, tid, if use_clone { " (clone)" } else { "" }, s, want[ti][k % 2])),
                                Err(_) => bad = Some(format!("CROSS TEXT: case {} thread {} panicked", ci, tid)),
                            }
                        }
                        let _ = tx.send(bad);
                    });
                }
                drop(tx);
                for _ in 0..n {
                    match rx.recv_timeout(Duration::from_secs(60)) {
                        Ok(Some(m)) => total.mismatches.push(m),
                        Ok(None) => {}
                        Err(_) => {
                            watchdog = true;
                            eprintln!("c18stress: cross-text round {} of case {} with {} threads: a thread did not come back within 60 s", round, ci, n);
                            break;
                        }
                    }
                    total.calls += 4;
                }
                cross_rounds += 1;
                if watchdog {
                    break 'cases;
                }
            }
        }
    }
    total.mismatches.extend(clone_diffs);
    let res = serde_json::json!({
        "clone_programs_compared": clone_programs_compared,
        "long_search_rounds": long_rounds,
        "cross_text_rounds": cross_rounds,
        "mode": mode, "seed": seed, "calls": total.calls, "overlapped_calls": total.overlapped,
        "distinct_triples_compared_under_overlap": total.triples_overlapped.len(),
        "peak_threads_inside_one_regex": peak.load(Ordering::Relaxed),
        "mismatches": total.mismatches.len(), "mismatch_examples": total.mismatches.iter().filter(|s| !s.is_empty()).take(5).collect::<Vec<_>>(),
        "panics": total.panics.len(), "panic_examples": total.panics.iter().take(5).collect::<Vec<_>>(),
        "rounds": rounds, "thread_counts": thread_counts, "patterns": np, "texts": nt, "apis": ["captures", "find_iter", "is_match", "try_replacen(0, template)", "split"],
        "tight_limit_regexes": tight_info,
        "cold_start_rounds": cold_rounds,
        "watchdog_fired": watchdog, "wall_s": t0.elapsed().as_secs_f64(),
        "sample": {"pattern": pats[np - 1], "text": texts[nt - 1], "single_threaded_captures": sh.table[((np - 1) * nt + (nt - 1)) * APIS]},
    });
    let text = serde_json::to_string_pretty(&res).unwrap();
    match out {
        Some(p) => std::fs::write(p, &text).expect("write result"),
        None => println!("{}", text),
    }
    if watchdog {
        std::process::exit(3);
    }
    if !total.mismatches.is_empty() || !total.panics.is_empty() {
        std::process::exit(1);
    }
}
