#!/bin/bash
# C18 — a compiled regex can be used from many threads at once.
# legs: static Send+Sync+Clone, native stress monitor, ThreadSanitizer, (thorough) Miri.
# usage: c18.sh <frmon-bin> <quick|thorough>     exit: 0 held, 1 violation, 2 inconclusive
set -u
TIER="${2:-quick}"
SEED="${VERIF_SEED:-1}"
ROOT="$(cd "$(dirname "$0")/.." && pwd)"
OUT="${VERIF_OUT:-$ROOT}"
WORK="$ROOT/work/c18-$$"
mkdir -p "$WORK" "$OUT/replays" "$OUT/evidence"
export CARGO_NET_OFFLINE=true
T0=$(date +%s.%N)
if [ "$TIER" = thorough ]; then NATIVE_CALLS=30000000; TSAN_CALLS=3000000; else NATIVE_CALLS=3000000; TSAN_CALLS=300000; fi

# 1. static
STATIC=ok
if ! (cd "$ROOT/sanit/sendsync" && cargo build --offline --target-dir "$ROOT/target-stress" >"$WORK/static.log" 2>&1); then
  if grep -q "cannot be sent between threads\|cannot be shared between threads\|Clone.*is not satisfied\|E0277" "$WORK/static.log"; then
    STATIC=violated; cp "$WORK/static.log" "$OUT/replays/C18-$TIER-static.txt"
  else
    STATIC=buildfail
  fi
fi

# 2. native stress
NATIVE=skipped
if (cd "$ROOT/sanit/stress" && cargo build --release --offline --target-dir "$ROOT/target-stress" >"$WORK/native-build.log" 2>&1); then
  for attempt in 1 2; do
    "$ROOT/target-stress/release/c18stress" native $NATIVE_CALLS $SEED "$WORK/native.json" 2>"$WORK/native.err"; rc=$?
    case $rc in
      0) NATIVE=ok; break ;;
      1) NATIVE=violated; break ;;
      3) NATIVE=watchdog$attempt ;;
      *) NATIVE=error$rc; break ;;
    esac
  done
else
  NATIVE=buildfail
fi

# 3. ThreadSanitizer
TSAN=skipped
TSAN_BIN="$ROOT/target-tsan/x86_64-unknown-linux-gnu/release/c18stress"
if (cd "$ROOT/sanit/stress" && RUSTFLAGS="-Zsanitizer=thread" cargo +nightly build -Zbuild-std --target x86_64-unknown-linux-gnu --release --target-dir "$ROOT/target-tsan" >"$WORK/tsan-build.log" 2>&1); then
  TSAN_OPTIONS="halt_on_error=1 exitcode=66 log_path=$WORK/tsan-report" "$TSAN_BIN" tsan $TSAN_CALLS $SEED "$WORK/tsan.json" 2>"$WORK/tsan.err"; rc=$?
  case $rc in
    0) TSAN=ok ;;
    66) TSAN=violated; cat "$WORK"/tsan-report* "$WORK/tsan.err" > "$OUT/replays/C18-$TIER-tsan.txt" 2>/dev/null ;;
    1) TSAN=mismatch ;;
    3) TSAN=watchdog ;;
    *) TSAN=error$rc ;;
  esac
else
  TSAN=buildfail
fi

# 4. Miri (thorough): 16 schedules, one process per seed
MIRI=skipped
if [ "$TIER" = thorough ]; then
  (cd "$ROOT/sanit/stress" && cargo +nightly miri setup >/dev/null 2>&1
   MIRIFLAGS="-Zmiri-disable-isolation" cargo +nightly miri run --target-dir "$ROOT/target-miri" -- miri 1 0 "$WORK/miri-warm.json" >"$WORK/miri-build.log" 2>&1)
  if [ -f "$WORK/miri-warm.json" ]; then
    pids=()
    for s in $(seq 0 15); do
      (cd "$ROOT/sanit/stress" && MIRIFLAGS="-Zmiri-disable-isolation -Zmiri-seed=$((SEED * 100 + s))" cargo +nightly miri run --target-dir "$ROOT/target-miri" -- miri 180 $((SEED + s)) "$WORK/miri-$s.json" >"$WORK/miri-$s.log" 2>&1; echo $? >"$WORK/miri-$s.rc") &
      pids+=($!)
    done
    wait "${pids[@]}"
    MIRI=ok
    for s in $(seq 0 15); do
      rc=$(cat "$WORK/miri-$s.rc" 2>/dev/null || echo 99)
      if [ "$rc" != 0 ]; then
        if grep -q "Undefined Behavior\|Data race\|data race" "$WORK/miri-$s.log"; then MIRI=violated; cp "$WORK/miri-$s.log" "$OUT/replays/C18-$TIER-miri.txt"; break
        elif [ "$rc" = 1 ]; then MIRI=mismatch; cp "$WORK/miri-$s.json" "$OUT/replays/C18-$TIER-miri.txt" 2>/dev/null; break
        else MIRI=error$rc; fi
      fi
    done
  else
    MIRI=buildfail
  fi
fi

T1=$(date +%s.%N)
python3 "$ROOT/sanit/c18_evidence.py" "$OUT" "$WORK" "$TIER" "$SEED" "$STATIC" "$NATIVE" "$TSAN" "$MIRI" "$(echo "$T1 - $T0" | bc)"
rc=$?
rm -rf "$WORK"
exit $rc
