#!/bin/bash
# usage: try_mx.sh <seed-id>[:<check>,<check>..] ...   - like try_patch.sh but in the isolated copy ${MX:-/tmp/mx}
# (run tools/mx_sync.sh first); default check = the property the seed aims at.
REPO=${MX:-/tmp/mx}/repo; VERIF=${MX:-/tmp/mx}/verif
mkdir -p /tmp/scratch/vout-mx
for spec in "$@"; do
  id=${spec%%:*}; checks=${spec#*:}; [ "$checks" = "$spec" ] && checks=${id%-*}
  cd "$REPO" || exit 2
  git checkout -q -- .
  if ! git apply /verif/seeded/$id/patch.diff; then echo "== $id PATCH-DOES-NOT-APPLY"; continue; fi
  echo "== $id"
  for c in ${checks//,/ }; do
    out=$(cd "$VERIF" && VERIF_OUT=/tmp/scratch/vout-mx VERIF_TIME_BUDGET=${VERIF_TIME_BUDGET:-300} timeout 2400 ./check $c quick 2>&1); rc=$?
    line=$(echo "$out" | grep -m1 -A1 "^VIOLATION\|^INCONCLUSIVE" | tr '\n' ' ' | cut -c1-330)
    echo "$c rc=$rc $line"
  done
  git -C "$REPO" checkout -q -- .
done
