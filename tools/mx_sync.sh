#!/bin/bash
# Refreshes the isolated copy /tmp/mx/{repo,verif} (used for running the checks against seeded
# changes while /repo itself stays untouched): working trees are rsynced, build output is kept.
set -e
mkdir -p /tmp/mx/repo /tmp/mx/verif
rsync -a --delete --exclude target /repo/ /tmp/mx/repo/
rsync -a --delete --exclude 'target*' --exclude work --exclude replays --exclude evidence /verif/ /tmp/mx/verif/
mkdir -p /tmp/mx/verif/evidence /tmp/mx/verif/replays
sed -i 's#path = "/repo"#path = "/tmp/mx/repo"#' /tmp/mx/verif/harness/Cargo.toml /tmp/mx/verif/sanit/*/Cargo.toml
git -C /tmp/mx/repo status --porcelain --untracked-files=no | head -3
echo synced
