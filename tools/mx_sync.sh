#!/bin/bash
# Refreshes the isolated copy ${MX:-/tmp/mx}/{repo,verif} (used for running the checks against seeded
# changes while /repo itself stays untouched): working trees are rsynced, build output is kept.
set -e
mkdir -p ${MX:-/tmp/mx}/repo ${MX:-/tmp/mx}/verif
rsync -a --delete --exclude target /repo/ ${MX:-/tmp/mx}/repo/
rsync -a --delete --exclude 'target*' --exclude work --exclude replays --exclude evidence /verif/ ${MX:-/tmp/mx}/verif/
mkdir -p ${MX:-/tmp/mx}/verif/evidence ${MX:-/tmp/mx}/verif/replays
sed -i "s|path = \"/repo\"|path = \"${MX:-/tmp/mx}/repo\"|" ${MX:-/tmp/mx}/verif/harness/Cargo.toml ${MX:-/tmp/mx}/verif/sanit/*/Cargo.toml
git -C ${MX:-/tmp/mx}/repo status --porcelain --untracked-files=no | head -3
echo synced
