#!/usr/bin/env python3
"""Regenerates /verif/MANIFEST.json from the table below (run after adding a check)."""
import json, os, subprocess
ROOT = os.path.dirname(os.path.dirname(os.path.abspath(__file__)))

HOOK_COMMITS = subprocess.run(["git", "-C", "/repo", "log", "--format=%H", "--grep=^verif-hooks:"], capture_output=True, text=True).stdout.split()

# id: (technique, level text, level note, design ref)
CHECKS = {
 "C01": ("reference-model monitor: differential of every search against an independent ordered-backtracking matcher at the API boundary; lock-step shadow hook underneath",
         "Every search of the explored pattern x text x offset space runs on the real crate and is compared with an executable model; held = no disagreement on the executions produced.",
         "Trusted: the harness reference matcher (refm.rs) as the definition of the semantics; patterns with an unbounded repeat of a nullable body are left out (finding F1) and probed by witnesses; alternations whose branches share a variable-length leading element are attributed to finding FY (the dependency's common-prefix rewrite).", "3 C01"),
 "C02": ("reference-model monitor: all capture groups vs the reference match path",
         "Every group of every successful search in the explored space is compared with the model's winning path.",
         "Trusted: reference rule 3 (last participating iteration); cases whose overall span differs are left to C01.", "3 C02"),
 "C03": ("metamorphic monitor: P vs P with an empty look-ahead injected at every site, both executed on the real crate",
         "Every (base, variant) pair of the explored space must give identical captures on all texts; evidence counts pairs whose VM/automata split really differs.",
         "No reference involved; F1-class base patterns are left out because the two engines differ there; FY-class bases (common-prefix alternations) are attributed to the listed finding.", "3 C03"),
 "C04": ("reference-model monitor with the regex crate as the executable model, whole API surface",
         "Every common-syntax pattern of the explored space x every text x ~60 API calls is compared with regex::Regex.",
         "Both crates share regex-automata, so a fault inside it is invisible here; FX / FL / F1 / FY classes are listed findings.", "3 C04"),
 "C05": ("panic / overflow monitor (catch_unwind, overflow-checks and debug-assertions compiled into the subject) plus offset-validity oracle on every reported span",
         "All public search entry points are driven over the unrestricted grammar and multi-byte texts; every span is validated and the slicing sites are executed.",
         "Err(RuntimeError) is an allowed outcome; runs use a backtrack limit and a VM step cap (cap hits are inconclusive cases).", "3 C05"),
 "C06": ("process-level resource monitors: counting global allocator with cap, bounded thread stack, panic monitor, confirmed wall-clock watchdog, in worker processes",
         "Every input of the token-sequence space is compiled under the monitors; aborts are observed by the parent and confirmed by re-running the input alone.",
         "Time is observed through allocation counts and a confirmed watchdog, not a cycle bound; the allocation cap is a calibrated constant (64 MiB + 2 MiB per pattern byte).", "3 C06"),
 "C07": ("invariant monitors on hooked VM counters (backtracks, steps, uncounted resumptions) with online step cap; metamorphic over backtrack limits incl. the exact threshold; limit-efficacy stress on catastrophic pattern families and long texts",
         "Per (pattern, text): the run is repeated under 11 fixed limits (incl. values beyond 2^32) and the exact thresholds B, B-1 read through the hook; the step bound is enforced online; catastrophic families must be ended by small limits within a bounded number of steps.",
         "The step bound K is a calibrated constant; evidence reports how close the run came.", "3 C07"),
 "C08": ("history monitor: the whole find_iter sequence against an iteration model driven by the reference matcher, plus model-free order invariants and induced Err histories",
         "Every yielded sequence in the explored space is compared item by item.",
         "Patterns with \\K below a look-behind (finding FK) have no defined model sequence; F1 class left out.", "3 C08"),
 "C09": ("metamorphic monitor: the search entry points against each other on the unrestricted space",
         "is_match / find / captures / *_from_pos / find_iter / captures_iter must tell one story for every case, including where an Err appears.", "No reference involved.", "3 C09"),
 "C10": ("history monitor: split / splitn item sequences (every prefix of next() calls) against the partition defined by the crate's own find_iter and, where reference semantics exist, by the reference iteration model; builder-option variants",
         "Every (pattern, text, limit) of the explored space.", "find_iter itself is judged by C08.", "3 C10"),
 "C11": ("reference-model monitor: try_replacen / replace* against a model built from the crate's captures_iter and the replacer's own output, stateful replacers (call order), groups and matches of the reference matcher; fast path vs captures path; induced search errors",
         "Every (pattern, text, limit, replacer) of the explored space.", "Template expansion itself is judged by C12.", "3 C11"),
 "C12": ("reference-model monitor: all six expansion entry points against an independent expander written from the documentation; exhaustive small templates",
         "All templates up to the length bound over the property's 14-symbol alphabet x 4 capture sets x both syntaxes; escape round trip; check soundness.",
         "Trusted: the harness model of the documented syntax (c12.rs).", "3 C12"),
 "C13": ("invariant monitor on hooked analysis facts: every node's min_size / const_size against match lengths enumerated by the reference matcher; differential on look-behinds over multi-byte texts",
         "Every node of every analysable pattern of the unrestricted space is confronted with the lengths actually observed.",
         "The converse direction (every fixed-length body is accepted) is not claimed by the property.", "3 C13"),
 "C14": ("metamorphic monitor over builder options plus an independent spelled-out statement of case-insensitivity (case-orbit classes); regex-automata itself as the oracle for exceeding a size limit",
         "Option routes must agree: case_insensitive(true) vs a leading (?i), neutral options, size limits per delegated piece, backtrack limit per route.",
         "Size-limit verdicts are only judged where the oracle agrees with itself at n/4 and 4n.", "3 C14"),
 "C15": ("reference-model monitor over conditional patterns + auxiliary-stack pairing invariant at a VM hook",
         "Conditionals at every nesting position of the explored space are executed and compared with the model; BeginAtomic/EndAtomic pairing is asserted inside vm::run.",
         "Trusted: reference rule 6; a disagreement is attributed to finding FJ only when the run itself shows the leaked aux-stack entry being consumed.", "3 C15"),
 "C16": ("reference-model monitor: group metadata against the truth known to the pattern generator, on both routes; iterator protocol of Captures::iter and out-of-range indices incl. overflowing ones",
         "captures_len, capture_names, Captures::{len,iter,get,name} for every pattern spelling (unnamed / named / mixed) and its VM twin.", "The generator's own group numbering is the oracle.", "3 C16"),
 "C17": ("reference-model monitor: escape() embedded in 22 host patterns against plain string search, searched from every character boundary; exhaustive short strings",
         "All strings up to the length bound over 42 symbols incl. every ASCII punctuation character.", "'Needs escaping' is stated independently of the crate (regex meta-characters plus #).", "3 C17"),
 "C18": ("sanitizers: ThreadSanitizer build and Miri (16 seeds) of a multi-thread stress monitor that compares every concurrent result with a single-threaded table (hot-pattern, cold-start and long-search rounds, tight-limit twins, clone program equality, deadlock watchdog); static Send+Sync+Clone assertion",
         "Results under 2-32 threads on shared and cloned Regex values must equal the single-threaded ones and every thread must come back; data races / UB are reported by TSan and Miri.",
         "Interleavings are those the OS, TSan and 16 Miri seeds produce; no claim about all schedules.", "3 C18"),
 "C19": ("metamorphic monitor: documented-equivalent spellings must parse to equal trees (Expr::parse_tree) and behave identically",
         "15 respelling families applied at every applicable site (also inside (?i:..), (?U:..), (?s:..)) plus hand-written pairs.", "Named spellings of forward references do not exist and are skipped.", "3 C19"),
 "C20": ("invariant-at-a-hook monitors: exhaustive operation sequences on the real State (wrapper hook) against a whole-state-copy model; lock-step shadow of the backtracking state during real VM runs",
         "All valid operation sequences up to the depth bound, seeded random long sequences, and program-level replay on committing-context patterns.",
         "Validity of sequences follows VM discipline.", "3 C20"),
}
NOT_YET = {}
for i in range(1, 21):
    pid = "C%02d" % i
    if pid not in CHECKS:
        NOT_YET[pid] = "check not built yet (work in progress in this session; will be claimed when its monitor exists)"

m = {
 "version": 1,
 "setup_cmd": "/verif/tools/setup.sh",
 "hooks": {
   "guard": "cargo feature verif-hooks (fancy-regex/Cargo.toml), cfg(feature = \"verif-hooks\") in src/",
   "enable": "the harness crate depends on fancy-regex by path with features = [\"verif-hooks\"] (harness feature `hooks`, default on); ./check rebuilds it from /repo's working tree before every run",
   "baseline_off_cmd": "cd /repo && cargo test --workspace --no-fail-fast --offline",
   "source_commits": HOOK_COMMITS,
   "add_only": True,
 },
 "engines": [
   {"name": "frmon", "path": "/verif/harness", "serves_properties": sorted(CHECKS), "kind_free_text": "Rust harness: workload generators, reference models, monitors over hooked VM state, evidence writer"},
 ],
 "checks": [],
 "not_applicable": [{"property_id": k, "reason": v} for k, v in sorted(NOT_YET.items())],
 "notes": "Technique family: runtime monitoring and sanitizers. Exit codes of every command: 0 held on everything explored (KNOWN-FINDING lines possible), 1 VIOLATION, 2 inconclusive. See DESIGN.md.",
}
for pid in sorted(CHECKS):
    tech, text, note, ref = CHECKS[pid]
    m["checks"].append({
      "property_id": pid,
      "quick_cmd": "./check %s quick" % pid,
      "thorough_cmd": "./check %s thorough" % pid,
      "evidence_file": "/verif/evidence/%s.json" % pid,
      "replay_cmd_template": "./check --replay {path}",
      "engine": "frmon",
      "level_claimed": {"category": "exploration", "text": text, "design_ref": "DESIGN.md §" + ref},
      "level_note": note,
      "technique": tech,
    })
json.dump(m, open(os.path.join(ROOT, "MANIFEST.json"), "w"), indent=1)
print("checks:", len(m["checks"]), "not_applicable:", len(m["not_applicable"]))
