#!/usr/bin/env python3
"""Regenerates /verif/MANIFEST.json from the table below (run after adding a check)."""
import json, os, subprocess
ROOT = os.path.dirname(os.path.dirname(os.path.abspath(__file__)))

HOOK_COMMITS = subprocess.run(["git", "-C", "/repo", "log", "--format=%H", "--grep=^verif-hooks:"], capture_output=True, text=True).stdout.split()

# id: (technique, level text, level note, design ref)
CHECKS = {
 "C01": ("reference-model monitor (differential against an independent ordered-backtracking matcher) at the API boundary + lock-step shadow hook",
         "Every search of the explored pattern x text x offset space is executed on the real crate and compared with an executable model; held = no disagreement on the executions produced, nothing beyond them.",
         "Trusted: the harness reference matcher (refm.rs) as the definition of the semantics; patterns with an unbounded repeat of a nullable body are left out (finding F1) and probed by witnesses.", "§3 C01"),
 "C02": ("reference-model monitor (all capture groups vs the reference match path)",
         "Every group of every successful search in the explored space is compared with the model's winning path.",
         "Trusted: reference matcher rule 3 (last participating iteration); cases whose overall span differs are left to C01.", "§3 C02"),
 "C15": ("reference-model monitor over conditional patterns + auxiliary-stack pairing invariant at a VM hook",
         "Conditionals at every nesting position of the explored space are executed and compared with the model; BeginAtomic/EndAtomic pairing is asserted inside vm::run.",
         "Trusted: reference rule 6; disagreements are attributed to finding FJ only when the run itself shows the leaked aux-stack entry being consumed.", "§3 C15"),
}
NOT_YET = {}
for i in range(1, 21):
    pid = "C%02d" % i
    if pid not in CHECKS:
        NOT_YET[pid] = "check not built yet (work in progress in this session; will be claimed when its monitor exists)"

m = {
 "version": 1,
 "setup_cmd": "cd /verif/harness && CARGO_NET_OFFLINE=true cargo build --release --offline",
 "hooks": {
   "guard": "cargo feature verif-hooks (fancy-regex/Cargo.toml), cfg(feature = \"verif-hooks\") in src/",
   "enable": "the harness crate depends on fancy-regex by path with features = [\"verif-hooks\"] (harness feature `hooks`, default on); ./check rebuilds it from /repo's working tree before every run",
   "baseline_off_cmd": "cd /repo && cargo test --workspace --no-fail-fast --offline",
   "source_commits": HOOK_COMMITS,
   "add_only": True,
 },
 "engines": [
   {"name": "frmon", "path": "/verif/harness", "serves_properties": sorted(CHECKS), "kind_free_text": "Rust harness: workload generators, reference models, monitors over hooked VM state, evidence writer"},
 ],
 "checks": [],
 "not_applicable": [{"property_id": k, "reason": v} for k, v in sorted(NOT_YET.items())],
 "notes": "Technique family: runtime monitoring and sanitizers. Exit codes of every command: 0 held on everything explored (KNOWN-FINDING lines possible), 1 VIOLATION, 2 inconclusive. See DESIGN.md.",
}
for pid in sorted(CHECKS):
    tech, text, note, ref = CHECKS[pid]
    m["checks"].append({
      "property_id": pid,
      "quick_cmd": "./check %s quick" % pid,
      "thorough_cmd": "./check %s thorough" % pid,
      "evidence_file": "/verif/evidence/%s.json" % pid,
      "replay_cmd_template": "./check --replay {path}",
      "engine": "frmon",
      "level_claimed": {"category": "exploration", "text": text, "design_ref": ref},
      "level_note": note,
      "technique": tech,
    })
json.dump(m, open(os.path.join(ROOT, "MANIFEST.json"), "w"), indent=1)
print("checks:", len(m["checks"]), "not_applicable:", len(m["not_applicable"]))
