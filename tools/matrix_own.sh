#!/bin/bash
# usage: matrix_own.sh <out.tsv> [seed-id...]   - in the isolated copy (tools/mx_sync.sh first): for every seeded
# change apply it, run the quick check of the property it aims at (plus the checks named in EXTRA="C01 C03"),
# revert. One line per seed: id <TAB> checks that exited 1 <TAB> checks that exited otherwise non-zero <TAB> seconds
OUT="$1"; shift
IDS="$@"; [ -z "$IDS" ] && IDS=$(ls /verif/seeded | grep '^C')
REPO=${MX:-/tmp/mx}/repo; VERIF=${MX:-/tmp/mx}/verif
mkdir -p /tmp/scratch/vout-mx
for id in $IDS; do
  P=/verif/seeded/$id/patch.diff; own=${id%-*}
  cd "$REPO" || exit 2
  git checkout -q -- .
  if ! git apply "$P"; then printf "%s\tPATCH-DOES-NOT-APPLY\t\t0\n" "$id" >> "$OUT"; continue; fi
  t0=$(date +%s); v=""; inc=""
  for c in $own $EXTRA; do
    [ "$c" = "$own" ] && [ -n "$seen" ] && continue
    (cd "$VERIF" && VERIF_OUT=/tmp/scratch/vout-mx VERIF_TIME_BUDGET=300 timeout 1500 ./check $c quick > /tmp/scratch/vout-mx/last-$c.log 2>&1); rc=$?
    [ $rc = 1 ] && v="$v $c"
    [ $rc != 0 ] && [ $rc != 1 ] && inc="$inc $c($rc)"
  done
  git -C "$REPO" checkout -q -- .
  printf "%s\t%s\t%s\t%s\n" "$id" "$v" "$inc" "$(( $(date +%s) - t0 ))" >> "$OUT"
done
