#!/bin/bash
# usage: try_patch.sh <patch.diff> <check-id>...   — applies the patch to /repo, runs the quick checks, reverts.
# prints one line per check: <id> rc=<exit> <first VIOLATION / INCONCLUSIVE line>
set -u
PATCH="$1"; shift
cd /repo || exit 2
if [ -n "$(git status --porcelain --untracked-files=no)" ]; then echo "try_patch: /repo has local changes, refusing"; exit 2; fi
if ! git apply "$PATCH"; then echo "try_patch: patch does not apply"; exit 2; fi
trap 'git -C /repo checkout -- . ' EXIT
TIER="${TIER:-quick}"
for c in "$@"; do
  mkdir -p /tmp/scratch/vout; out=$(cd /verif && VERIF_OUT=/tmp/scratch/vout ./check "$c" "$TIER" 2>&1); rc=$?
  line=$(echo "$out" | grep -m1 -A1 "^VIOLATION\|^INCONCLUSIVE" | tr '\n' ' ' | cut -c1-330)
  echo "$c rc=$rc $line"
done
