#!/usr/bin/env python3
"""Rewrites §10 of DESIGN.md (between the markers) from seeded/*/meta.json and selftest results."""
import json, os, glob, re
ROOT = os.path.dirname(os.path.dirname(os.path.abspath(__file__)))
rows = []
for d in sorted(glob.glob(os.path.join(ROOT, "seeded", "C*"))):
    m = json.load(open(os.path.join(d, "meta.json")))
    det = " ".join(m.get("quick_checks_reporting_a_violation_now") or []) or "(see note)"
    rows.append("| %s | %s | %s | %s | %s |" % (m["id"], m["breaks_property"], m["mechanism"].replace("|", "\\|")[:150], det, (m["first_result_of_my_checks"] + ("; **strengthened:** " + m["strengthening"] if m["strengthening"] else "")).replace("|", "\\|")))
self_rows = []
mp = os.path.join(ROOT, "seeded", "MATRIX.tsv")
if os.path.exists(mp):
    for line in open(mp):
        f = line.rstrip("\n").split("\t")
        if f[0].startswith("patches/"):
            self_rows.append("| %s | %s |" % (f[0][8:], f[1].strip() or "(none)"))
text = """<!-- BEGIN GENERATED §10 -->
## 10. Seeded changes and which checks catch them

`seeded/<id>/` holds breaking changes written by independent sub-agents that were given only the
text of one property and a scratch worktree of `/repo` (nothing from `/verif`): `patch.diff`, the
agent's demonstration `demo.rs`, its README and `meta.json`. Every one was confirmed by
`tools/verify_seed.sh` (demo passes on the clean tree, fails with the patch; unedited suite 194/194
with the patch) and then run against the checks with `tools/try_patch.sh` / `tools/matrix.sh`
(`git -C /repo apply`, quick checks, `git -C /repo checkout -- .`) or, since round 3, in an
isolated copy (`tools/mx_sync.sh`, `tools/try_mx.sh`). Column 4 lists the quick checks that were
observed to exit 1 on the patched tree in the runs of the last session (`seeded/MATRIX.tsv`: the
check of the property the seed aims at, siblings where they were run; its fourth column names the
checks that were run). `(see note)` = not re-run in the last session; the history column says what
happened when the seed was filed and what was strengthened.

| seed | aimed at | mechanism | quick checks that report it | history |
|---|---|---|---|---|
%s

Reverse patches of every `fix:` commit and my own one-hunk breaks (`selftest/patches/`):

| patch | quick checks that report it |
|---|---|
%s
<!-- END GENERATED §10 -->""" % ("\n".join(rows), "\n".join(self_rows))
p = os.path.join(ROOT, "DESIGN.md")
s = open(p).read()
if "<!-- BEGIN GENERATED §10 -->" in s:
    s = re.sub(r"<!-- BEGIN GENERATED §10 -->.*<!-- END GENERATED §10 -->", lambda _: text, s, flags=re.S)
else:
    s = s.rstrip("\n") + "\n\n---------------------------------------------------------------------------------------------------\n\n" + text + "\n"
open(p, "w").write(s)
print("rows", len(rows), len(self_rows))
