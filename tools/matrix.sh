#!/bin/bash
# usage: matrix.sh <out.tsv> <patch.diff>...  — for every patch: apply to $MX_REPO, run all 20 quick checks, revert.
# one line per patch: name <TAB> checks that exited 1 <TAB> checks that exited other than 0/1 <TAB> seconds
OUT="$1"; shift
REPO="${MX_REPO:-/repo}"; VERIF="${MX_VERIF:-/verif}"
mkdir -p /tmp/scratch/vout-mx
for P in "$@"; do
  name=$(basename "$(dirname "$P")")/$(basename "$P" .diff)
  cd "$REPO" || exit 2
  if [ -n "$(git status --porcelain --untracked-files=no)" ]; then echo "matrix: $REPO dirty, stopping"; exit 2; fi
  if ! git apply "$P"; then printf "%s\tPATCH-DOES-NOT-APPLY\t\t0\n" "$name" >> "$OUT"; continue; fi
  t0=$(date +%s); v=""; inc=""
  for i in $(seq -w 1 20); do
    (cd "$VERIF" && VERIF_DIR="$VERIF" VERIF_OUT=/tmp/scratch/vout-mx VERIF_TIME_BUDGET=300 timeout 1200 ./check C$i quick > /tmp/scratch/vout-mx/last-C$i.log 2>&1); rc=$?
    [ $rc = 1 ] && v="$v C$i"
    [ $rc != 0 ] && [ $rc != 1 ] && inc="$inc C$i($rc)"
  done
  git -C "$REPO" checkout -- .
  printf "%s\t%s\t%s\t%s\n" "$name" "$v" "$inc" "$(( $(date +%s) - t0 ))" >> "$OUT"
done
