#!/bin/bash
# usage: matrix.sh <out.tsv> <patch.diff>...  — for every patch: apply to /repo, run all 20 quick checks, revert.
# one line per patch: name <TAB> checks that exited 1 <TAB> checks that exited 2 <TAB> seconds
OUT="$1"; shift
mkdir -p /tmp/scratch/vout
for P in "$@"; do
  name=$(basename "$(dirname "$P")")/$(basename "$P" .diff)
  cd /repo || exit 2
  if [ -n "$(git status --porcelain --untracked-files=no)" ]; then echo "matrix: /repo dirty, stopping"; exit 2; fi
  if ! git apply "$P"; then printf "%s\tPATCH-DOES-NOT-APPLY\t\t0\n" "$name" >> "$OUT"; continue; fi
  t0=$(date +%s); v=""; inc=""
  for i in $(seq -w 1 20); do
    (cd /verif && VERIF_OUT=/tmp/scratch/vout VERIF_TIME_BUDGET=300 timeout 1200 ./check C$i quick > /tmp/scratch/vout/last-C$i.log 2>&1); rc=$?
    [ $rc = 1 ] && v="$v C$i"
    [ $rc != 0 ] && [ $rc != 1 ] && inc="$inc C$i($rc)"
  done
  git -C /repo checkout -- .
  printf "%s\t%s\t%s\t%s\n" "$name" "$v" "$inc" "$(( $(date +%s) - t0 ))" >> "$OUT"
done
