#!/bin/bash
# usage: suite_check.sh <patch.diff>... — applies each patch in a scratch worktree and runs the unedited suite
WT=/tmp/wt/own
[ -d $WT ] || { git -C /repo worktree add --detach $WT HEAD -q; cp /repo/Cargo.lock $WT/; }
for P in "$@"; do
  cd $WT && git checkout -q -- . && git apply "$P" || { echo "$(basename $P): does not apply"; continue; }
  r=$(CARGO_NET_OFFLINE=true cargo test --workspace --no-fail-fast --offline 2>&1 | grep -E "^test result|^error" | awk '/^error/{e=1} {p+=$4; f+=$6} END{print "passed="p" failed="f (e?" COMPILE-ERROR":"")}')
  echo "$(basename $P): $r"
  git checkout -q -- .
done
