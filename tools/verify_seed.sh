#!/bin/bash
# usage: verify_seed.sh <worktree> <k> <seed-id>
# Confirms a sub-agent's mutation in its scratch worktree: demo passes on the clean tree, fails with the
# patch; the unedited suite passes with the patch. Then files it under /verif/seeded/<seed-id>/.
set -u
WT="$1"; K="$2"; ID="$3"
M="$WT/MUTATION$K"
cd "$WT" || exit 2
export CARGO_NET_OFFLINE=true
git checkout -q -- . ; rm -f tests/demo_break.rs
[ -f "$M/patch.diff" ] && [ -f "$M/demo.rs" ] || { echo "missing files in $M"; exit 2; }
cp "$M/demo.rs" tests/demo_break.rs
clean=$(cargo test --offline --test demo_break 2>&1 | grep -E "^test result" | head -1)
git apply "$M/patch.diff" || { echo "patch does not apply"; rm -f tests/demo_break.rs; exit 2; }
demo=$(cargo test --offline --test demo_break 2>&1 | grep -E "^test result" | head -1)
rm -f tests/demo_break.rs
suite=$(cargo test --workspace --no-fail-fast --offline 2>&1 | grep -E "^test result" | awk '{p+=$4; f+=$6} END{print "passed="p" failed="f}')
git checkout -q -- .
echo "clean-tree demo : $clean"
echo "mutated demo    : $demo"
echo "mutated suite   : $suite"
case "$clean" in *"ok."*) ;; *) echo "REJECT: demo does not pass on the clean tree"; exit 1;; esac
case "$demo" in *FAILED*) ;; *) echo "REJECT: demo does not fail with the mutation"; exit 1;; esac
case "$suite" in *"passed=194 failed=0"*) ;; *) echo "REJECT: suite does not pass with the mutation"; exit 1;; esac
mkdir -p /verif/seeded/$ID
cp "$M/patch.diff" "$M/demo.rs" /verif/seeded/$ID/
cp "$M/README.md" /verif/seeded/$ID/AGENT_README.md 2>/dev/null
echo "CONFIRMED -> /verif/seeded/$ID"
