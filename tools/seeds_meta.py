#!/usr/bin/env python3
"""Writes /verif/seeded/<id>/meta.json from the table below plus the detection matrix
(/verif/seeded/MATRIX.tsv: seed <TAB> checks that reported a violation <TAB> inconclusive <TAB> seconds)."""
import json, os
ROOT = os.path.dirname(os.path.dirname(os.path.abspath(__file__)))
SEEDS = {
 # id: (property, mechanism, what it needs to manifest, first result, strengthening done)
 "C01-a": ("C01", "analyze.rs Alt arm: min_size lowered before the const_size comparison, so `ab|a`-ordered alternations are judged constant-size and delegated as one piece / look-behinds are not split", "an alternation whose later branch is shorter, next to a hard node or inside a look-behind, and a text that needs the shorter branch", "caught at once", ""),
 "C01-b": ("C01", "compile.rs: BeginAtomic/EndAtomic around a hard positive look-around body only for look-ahead, not look-behind", "a look-behind with capturing groups in different equal-length branches followed by a backreference to the later branch's group", "missed by the quick tier (needs 8 nodes)", "4 contexts added in which two capturing branches of a look-around / atomic group are followed by a reference that shows which branch was committed"),
 "C02-a": ("C02", "vm.rs Delegate: groups that did not take part in this delegate run are reset to unset (the exact reverse of fix FA)", "a delegated piece with a skippable group inside a VM-driven loop; an earlier iteration enters the group, a later one skips it", "caught at once", ""),
 "C02-b": ("C02", "vm.rs backtrack_cut keeps the newest instead of the oldest undo record of a slot", "an atomic region that rewrites one slot in two discarded branches, then a failure after the region and an outer alternative", "caught at once (lock-step shadow: 'after cut a pop would not restore its push')", ""),
 "C03-a": ("C03", "same mechanism as C01-a (written independently)", "as C01-a", "caught at once", ""),
 "C03-b": ("C03", "same mechanism as C02-a (written independently)", "as C02-a", "caught at once", ""),
 "C04-a": ("C04", "same mechanism as C01-a, demonstrated with common syntax around \\b", "`(?:a-|a)\\b-` on \"a-\": 7 nodes", "missed by C04 quick (space of <= 3 nodes), caught by C01 / C03 / C13", "C04 got seeded random trees of 5-9 nodes"),
 "C04-b": ("C04", "parse.rs parse_class re-quotes escaped literals with the crate's own push_quoted, which does not quote `-`", "an escaped hyphen between two class members that form a range", "missed (no class with an escape in the space)", "C04 atoms extended with classes containing escapes, ranges, nested classes, POSIX classes; `-` added to literals and texts"),
 "C05-a": ("C05", "the `start <= end` cap for \\K moved from the VM's End into find only; captures keep the raw slots", "\\K inside a positive look-ahead, observed through captures / templates", "caught at once", ""),
 "C05-b": ("C05", "CaptureMatches::next advances one byte instead of one character after an empty match", "VM pattern, empty match right before a multi-byte character, captures_iter / replace with template", "caught at once", ""),
 "C06-a": ("C06", "parser nesting limit no longer covers flag groups and conditionals", "thousands of nested `(?:` / `(?i:` / `(?(`", "caught at once (worker dies, nominee confirmed alone)", ""),
 "C06-b": ("C06", "analyze.rs: a `{0}` repeat of a hard body is marked easy; to_str then panics on the hard child", "`{0}` on a construct containing a fancy feature, in a delegated position", "caught at once", ""),
 "C07-a": ("C07", "vm.rs: backtrack-stack cap coupled to the backtrack limit", "a long greedy loop with a deep stack but few backtracks, limit below the depth", "caught at once (StackOverflow where the property allows only BacktrackLimitExceeded or the answer)", ""),
 "C07-b": ("C07", "lib.rs: the captures path runs the VM with default options instead of the configured limit", "non-default limit + captures-family API", "missed (only find was run under the limits)", "C07 runs captures and is_match under every limit and requires them to agree with find"),
 "C08-a": ("C08", "after an Err the iterators set last_end = len instead of len + 1", "a runtime error, a branch that can match empty at the end of the text, and a caller that keeps pulling", "caught at once (error histories)", ""),
 "C08-b": ("C08", "last_match recorded only for non-empty matches, so the skipped-empty-match flag is not raised", "\\G pattern whose matches so far were all empty", "caught at once (\\G contexts)", ""),
 "C09-a": ("C09", "captures_iter raises the skipped-empty-match flag after every match (>= instead of >)", "\\G pattern, captures_iter, two adjacent matches", "caught at once", ""),
 "C09-b": ("C09", "the \\K start cap moved from the VM into Match::new; Captures::get builds Match from raw slots", "\\K inside a positive look-ahead via captures", "caught at once", ""),
 "C10-a": ("C10", "Split searches on its own and does not drop an empty match directly behind a match", "a delimiter that can match both empty and non-empty", "caught at once", ""),
 "C10-b": ("C10", "SplitN cuts the remainder at the search cursor instead of the piece cursor", "splitn with n >= 2 where match n-1 is empty and not at the end", "caught at once", ""),
 "C11-a": ("C11", "try_replacen fast path drops Err items (`.flatten()`)", "VM pattern that hits a runtime error + template without `$` / NoExpand", "missed (error histories were only driven, not judged)", "C11 requires Err whenever the search error lies among the matches to be replaced, and the three constant replacers to agree"),
 "C11-b": ("C11", "'no match' detected by last_match == 0 instead of peeking", "all replaced matches are empty matches at offset 0", "caught at once", ""),
 "C12-a": ("C12", "Expander::escape drops a trailing substitution character (split_terminator)", "a string ending in `$` (or `\\` for the Python syntax)", "caught at once", ""),
 "C12-b": ("C12", "identifier scanner stops at non-ASCII digits (is_alphabetic for non-ASCII)", "a reference containing a non-ASCII numeric character", "missed; it also made the new fixture pattern fail to compile, which crashed the check", "random templates over a wider alphabet (non-ASCII digits, letters, marks), a fifth capture set with such names, unusable fixtures are skipped and reported instead of crashing"),
 "C13-a": ("C13", "same mechanism as C01-a (written independently)", "look-behind with a longest-first alternation of differing lengths", "caught at once (facts monitor: const_size refuted by observed lengths)", ""),
 "C13-b": ("C13", "prev_codepoint_ix scans at most 3 bytes back", "a 4-byte character inside the look-behind window", "caught at once (multi-byte look-behind differential)", ""),
 "C14-a": ("C14", "case_insensitive(false) normalisation hoisted out of compile_inner so the wrapped route applies the builder flag a second time inside regex-automata", "builder option + plain pattern with a `(?-i:..)` island", "caught at once (patch rebased: its comment-only hunk in lib.rs no longer applied after fix ad3f027)", ""),
 "C14-b": ("C14", "DelegateBuilder::new() keeps default options; only compile_delegates passes the limits", "small delegate_size_limit + oversized single-expression delegate (look-around / atomic body, alternation branch)", "caught at once", ""),
 "C15-a": ("C15", "the Jmp over the false branch is omitted when that branch is zero-width", "a conditional with a zero-width `no` branch, condition true", "caught at once", ""),
 "C15-b": ("C15", "parse_conditional splits a parsed alternation again (the reverse of fix FM, which is upstream's behaviour)", "`(?(c)(?:a|b))`: no else, truth branch is a grouped alternation", "caught at once", ""),
 "C16-a": ("C16", "parser counts groups at the closing parenthesis; names are stored with the count at the opening one", "a named group nested inside another capturing group", "caught at once", ""),
 "C16-b": ("C16", "Expr::to_str wraps a repeat nested in a repeat with `(` instead of `(?:`", "quantified non-capturing group whose only content is a quantified atom, delegated", "caught at once", ""),
 "C17-a": ("C17", "is_special loses `#`", "`#` in the string and a host under the x flag", "caught at once", ""),
 "C17-b": ("C17", "DelegateBuilder::push appends literal nodes unquoted", "fancy host, literal meta-character next to a non-literal easy node in one delegate", "missed by C17 (hosts delegated E alone); C03 / C01 missed it too (no meta-character literal among the atoms)", "two fancy hosts in which E shares a delegate with a class; the literal `\\.` added to the atoms of the C01 space"),
 "C18-a": ("C18", "per-Prog shared slot buffer for Delegate, read back after the lock is released", "concurrent searches on one Regex (or clones) with groups inside a delegate", "caught at once (native stress: thousands of mismatching calls)", ""),
 "C18-b": ("C18", "backtrack counter moved from a local into an Arc<AtomicUsize> in Prog", "concurrent searches that together exceed the limit", "missed (atomics: no data race for TSan, and the corpus never came near a limit)", "the stress corpus calibrates, per designated (pattern, text), the backtracks needed and adds a twin Regex whose limit is 50% above that"),
 "C19-a": ("C19", "hex / unicode escapes lose (?i) for non-ASCII letters", "case-insensitive scope + escaped non-ASCII cased letter", "missed (respellings were only compared outside flag scopes)", "every (base, respelled) pair is also parsed inside `(?i:..)`; pairs with (?i) added"),
 "C19-b": ("C19", "optional_whitespace handles x-mode whitespace and (?#..) comments in two passes that run once each", "x mode + a comment followed by whitespace at the start of a group / alternative, after another comment, or before a quantifier", "missed (free-spacing and comment families were applied separately)", "family free-spacing+comment: separators that mix whitespace, line comments and (?#..) comments"),
 "C20-a": ("C20", "backtrack_cut merges undo records through a map whose insert overwrites (newest old value wins)", "a slot written in two in-group deltas, then a backtrack past the group", "caught at once (sequence model and program-level shadow)", ""),
 "C20-b": ("C20", "Save0 resets a repeat counter without an undo record", "a bounded repeat with a hard body inside an outer loop, re-entered while a branch of the first pass is alive", "caught at once; first runs exposed that a looping VM made the checks crawl", "step caps lowered, patterns abandoned after 2 cap hits, flood control and wall-clock budget"),
 # ---- round 2: sub-agents were told the mechanisms above and asked for subtler, different ones (worktree at 532a688)
 "C01-c": ("C01", "compile_repeat no longer ORs the repeat's own hardness into the flag it passes to its child", "a counted repeat that is the whole body of an atomic group / look-around, hard child ending in variable easy text, second iteration must make the first give back (7 elements)", "missed by C01 quick, caught by C03 quick", "contexts with a counted repeat as the whole body of a committing construct"),
 "C01-d": ("C01", "all positive look-arounds share one Save/Restore slot", "two nested positive look-arounds evaluated at different offsets", "caught at once (C01, C03)", "contexts with look-arounds nested two and three deep added anyway"),
 "C02-c": ("C02", "bounded repeat (hi != MAX) does not propagate hardness", "bounded repeat with hard body and easy variable tail as last element of an atomic group / look-around", "span differs, so C02 leaves it to C01; caught by C03 at once and by C01 after the context below", "context (?>(?:(?!c)(a|ab)){2})X and longer fixed texts"),
 "C02-d": ("C02", "a self-referencing backreference on re-entry matches empty instead of failing", "`\\N` inside its own (open) group in a loop with text consumed between iterations", "NOT detected", "none: outside what the property quantifies over (references to groups closed earlier); no reference semantics exist for a reference into an open group, and the mutant neither panics nor reports invalid offsets"),
 "C03-c": ("C03", "a group referenced only by a condition is no longer recorded in the parser's backrefs set, so it is not hard", "group condition without a real backreference + equal-width alternation where one branch captures", "missed (7 nodes)", "contexts (?:.|(X))(?(1)a|b) and (?>(X)*)(?(1)b|c)"),
 "C03-d": ("C03", "RepeatNg saves its counter after pushing the branch, so optional iterations are never counted", "lazy bounded quantifier with lo < hi run by the VM and more than hi repetitions in the text (length >= 4)", "the looping VM made C03 run for two hours", "time budget polled per work item and inside the variant loop, variants abandoned after 2 step-cap hits; longer fixed texts (aaab, ...) in the text space"),
 "C05-c": ("C05", "look-around position slots chosen by nesting depth mod 2", "three nested positive look-arounds, outermost a look-behind, search from an offset > 0", "caught after the three-deep context was added (C05, C01)", "context (?<=(?=(?=X)a).)b?"),
 "C05-d": ("C05", "the lo > hi guard of a backreference moved to a new instruction that is only emitted for the innermost open group", "`\\1` inside group 2 inside group 1 inside a loop", "missed (7 nodes)", "contexts (?:((X|a)b)c)+ and (?:a((X)|))+"),
 "C06-c": ("C06", "\\x{..} accepts nine hex digits; from_str_radix(..).unwrap() panics", "a braced hex escape with nine digits", "missed (no such token)", "tokens \\x{1 / 00000000 / FFFFFFFF / \\u{"),
 "C06-d": ("C06", "small exact repeats are unrolled, nested ones multiply the program", "several levels of {2}/{3} around a VM-compiled body", "missed (far below the absolute allocation cap)", "scaling monitor: families of nested / repeated hard bodies, doubling the size may cost at most 4x"),
 "C08-c": ("C08", "RepeatEpsilonNg guard `>` became `>=`: reads the check slot before it is written", "lazy unbounded loop with nullable body re-entered by an outer loop", "missed: every witness is in the F1 class, which was excluded", "bug-compatible expectation for F1 loops with hard bodies (validated on 395k patterns / 258M evaluations), so these patterns are now checked"),
 "C08-d": ("C08", "byte/char confusion in a GoBack fast path", "look-behind >= 2 characters wide over multi-byte text with the right alignment", "caught at once (C08, C13)", ""),
 "C09-c": ("C09", "is_match shortcut with a byte-length lower bound that miscounts case-insensitive literals", "(?i) + ſ / KELVIN SIGN / ẞ + a text shorter in bytes", "missed", "C09 leg with case-insensitive literals whose case fold has another UTF-8 length"),
 "C09-d": ("C09", "find_iter stops after one match for patterns judged anchored; the test descends into look-behinds", "alternatives pinned to different offsets through `^` inside look-behinds", "missed (6 nodes)", "iteration contexts ^X|(?<=^X)[ab] and ^|(?<=^X)"),
 "C12-c": ("C12", "all-digit reference ids are treated as indices before the name lookup", "a group with a digit-only name", "missed", "capture set with digit-only names"),
 "C12-d": ("C12", "write_expansion calls write (may write short) instead of write_all", "a writer that takes fewer bytes than offered", "missed", "short writers (1 and 3 bytes per call)"),
 "C13-c": ("C13", "conditional const_size test degenerates to 'else not longer than cond+yes'", "conditional with a consuming condition and shorter / missing else branch inside a look-behind", "missed (5 nodes, unrestricted E(4) did not contain it)", "look-behinds around conditionals added to the facts monitor's patterns"),
 "C13-d": ("C13", "same mechanism as C01-d", "as C01-d", "caught (C13, C01)", ""),
 "C15-c": ("C15", "same mechanism as C03-c (numbered condition read with parse_decimal)", "as C03-c", "missed, then caught with the new contexts", ""),
 "C15-d": ("C15", "flags set in the yes-branch are restored before the no-branch", "inline flag directive in the yes-branch of a conditional with both branches", "not caught by C15 (its reference has no flags), caught by C19", "C19 pairs with flags across alternation / conditional branches"),
 "C16-c": ("C16", "analysis visits the branches of a variable-size look-behind alternation twice, handing out group numbers twice", "look-behind + different-size alternation + capture group in a branch", "caught at once", ""),
 "C16-d": ("C16", "capture_names pads only one unnamed group before a name", "a name preceded by two or more unnamed groups", "missed", "naming layouts 'only the last group' and 'every third group', rows of sibling / nested groups"),
 "C20-c": ("C20", "Split skips pushing a duplicate branch; FailNegativeLookAround then pops an older alternative", "optional group ending in a negative look-around", "missed by C20 (caught by C01)", "hook: a failing negative look-around must leave exactly as many alternatives as existed when it was entered; context a(?:X|(?!b))?b"),
 "C20-d": ("C20", "same mechanism as C01-c", "as C01-c", "not a state-restore defect; caught by C03 / C01", ""),
}
matrix = {}
mp = os.path.join(ROOT, "seeded", "MATRIX.tsv")
if os.path.exists(mp):
    for line in open(mp):
        f = line.rstrip("\n").split("\t")
        if len(f) >= 3:
            matrix[f[0].split("/")[0]] = (f[1].split(), f[2].split())
for sid, (prop, mech, needs, first, strengthen) in SEEDS.items():
    d = os.path.join(ROOT, "seeded", sid)
    if not os.path.isdir(d):
        print("missing", sid); continue
    det, inc = matrix.get(sid, ([], []))
    meta = {
      "id": sid, "breaks_property": prop, "mechanism": mech, "needs_to_manifest": needs,
      "written_by": "independent sub-agent given only the property text and a scratch worktree of /repo at %s%s" % ("532a688" if sid[-1] in "cd" else "47309b2", " (second round: also told which mechanisms the first round had used and asked for subtler ones)" if sid[-1] in "cd" else ""),
      "confirmed": "tools/verify_seed.sh in the scratch worktree: demo.rs passes on the clean tree and fails with patch.diff; unedited suite 194/194 with the patch",
      "first_result_of_my_checks": first, "strengthening": strengthen,
      "quick_checks_reporting_a_violation_now": det, "quick_checks_inconclusive": inc,
      "how_checked": "git -C /repo apply patch.diff; ./check <id> quick for all 20 ids (tools/matrix.sh); git -C /repo checkout -- .",
    }
    json.dump(meta, open(os.path.join(d, "meta.json"), "w"), indent=1, ensure_ascii=False)
print("meta written for", len(SEEDS))
