#!/bin/bash
# Builds everything the checks need, offline, from files on disk only.
set -e
export CARGO_NET_OFFLINE=true
ROOT="$(cd "$(dirname "$0")/.." && pwd)"
(cd "$ROOT/harness" && cargo build --release --offline --target-dir "$ROOT/target")
(cd "$ROOT/sanit/sendsync" && cargo build --offline --target-dir "$ROOT/target-stress")
(cd "$ROOT/sanit/stress" && cargo build --release --offline --target-dir "$ROOT/target-stress")
# ThreadSanitizer build of the C18 stress monitor (nightly, build-std; ~80 s cold)
(cd "$ROOT/sanit/stress" && RUSTFLAGS="-Zsanitizer=thread" cargo +nightly build -Zbuild-std --target x86_64-unknown-linux-gnu --release --target-dir "$ROOT/target-tsan") || echo "setup: TSan build failed; C18 will report its TSan leg as inconclusive"
