//! Pattern / text spaces shared by several properties.
use crate::ast::Node;
use crate::common::Tier;
use crate::gen::{self, Gen};

/// The C01 space: exhaustive small trees, context x filler products, seeded random trees.
pub struct Space {
    pub patterns: Vec<Node>,
    pub describe: String,
}

pub fn c01_space(tier: Tier, seed: u64, cond: bool, e_quick: usize, e_thorough: usize, fill_quick: usize, fill_thorough: usize, rand_quick: usize, rand_thorough: usize) -> Space {
    let mut g = Gen::new(cond);
    let en = tier.pick(e_quick, e_thorough);
    let fill = tier.pick(fill_quick, fill_thorough);
    let nrand = tier.pick(rand_quick, rand_thorough);
    let mut patterns = g.upto(en);
    let n_e = patterns.len();
    let fillers = g.upto(fill);
    let prods = gen::products(&fillers);
    let n_p = prods.len();
    patterns.extend(prods);
    let rnd = gen::random_patterns(seed, nrand, cond, 6, 14);
    let n_r = rnd.len();
    patterns.extend(rnd);
    Space {
        patterns,
        describe: format!(
            "E({}) = {} trees{} + {} contexts x E({}) = {} products + {} seeded random trees of 6-14 nodes",
            en,
            n_e,
            if cond { " (with conditionals)" } else { "" },
            gen::contexts().len(),
            fill,
            n_p,
            n_r
        ),
    }
}

pub fn texts_c01(len: usize) -> Vec<String> {
    let mut t = gen::texts(&gen::ALPHA_C01, len);
    // a few longer, repetitive texts: counted and lazy repeats need more than `hi` repetitions
    // before their bookkeeping shows
    for extra in ["aaab", "aaaa", "abab", "aabb", "bbba", "aaaab", "ababab", "aa-aaa", "ééé-", "a\nab", "ababb", "ababaa", "abcabc"] {
        if extra.chars().count() > len {
            t.push(extra.to_string());
        }
    }
    // characters at the edges of the UTF-8 length classes (lead bytes C2, DF, E0, EF, F0, F4)
    for c in ["\u{80}", "\u{7ff}", "\u{800}", "\u{e01}", "\u{ffff}", "\u{10000}", "\u{10ffff}"] {
        t.push(c.to_string());
        t.push(format!("a{}", c));
        t.push(format!("{}a", c));
        t.push(format!("{}{}b", c, c));
    }
    // carriage returns: line anchors and `.` know about `\n` only (no CRLF mode exists)
    for extra in ["\r", "\r\n", "a\r", "\ra", "a\r\n", "\n\r", "a\rb", "a\r\nb", "\r\r"] {
        t.push(extra.to_string());
    }
    t
}

/// The unrestricted (C05) space: all features, no scoping rules - self-referential and forward
/// backreferences, empty loops, \K and \G anywhere, conditionals, multi-byte literals.
pub fn unrestricted(tier: Tier, seed: u64, e_quick: usize, e_thorough: usize, rand_quick: usize, rand_thorough: usize) -> Space {
    use crate::ast::{Node::*, A};
    let atoms = vec![
        Node::lit("a"),
        Node::lit("é"),
        Node::lit("😀"),
        Any(false),
        Node::class("[^a]"),
        Assert(A::StartText),
        Assert(A::EndText),
        Assert(A::WordB),
        Backref(1),
        Backref(2),
        KeepOut,
        Empty,
    ];
    let mut g = Gen::with_atoms(atoms, gen::reps_c01(), true, true);
    g.contg = true;
    let en = tier.pick(e_quick, e_thorough);
    let mut patterns = g.upto(en);
    let n_e = patterns.len();
    let fillers = g.upto(2);
    let prods = gen::products(&fillers);
    let n_p = prods.len();
    patterns.extend(prods);
    let rnd = gen::random_patterns(seed ^ 0x05, tier.pick(rand_quick, rand_thorough), true, 5, 12);
    let n_r = rnd.len();
    patterns.extend(rnd);
    Space { patterns, describe: format!("unrestricted grammar: all {} trees of <= {} nodes over atoms a é 😀 . [^a] ^ $ \\b \\1 \\2 \\K \\G (?(1)) ε with groups, atomic groups, 4 look-arounds, 12 quantifier forms, concat, alt, both conditional forms; {} context products; {} seeded random trees of 5-12 nodes", n_e, en, n_p, n_r) }
}

pub fn texts_mb(len: usize) -> Vec<String> {
    let mut t = gen::texts(&gen::ALPHA_MB, len);
    for extra in ["aaaa", "aéaé", "abcabc", "aaéé😀", "aa\naa"] {
        if extra.chars().count() > len {
            t.push(extra.to_string());
        }
    }
    for extra in ["\r", "a\r\n", "\r\na", "é\r", "aéaaé", "aé€aé", "aaéa"] {
        t.push(extra.to_string());
    }
    for c in ["\u{80}", "\u{7ff}", "\u{800}", "\u{e01}", "\u{ffff}", "\u{10000}", "\u{100000}", "\u{10ffff}"] {
        t.push(c.to_string());
        t.push(format!("a{}", c));
        t.push(format!("{}a", c));
        t.push(format!("{}{}", c, c));
    }
    t
}
