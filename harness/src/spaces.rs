//! Pattern / text spaces shared by several properties.
use crate::ast::Node;
use crate::common::Tier;
use crate::gen::{self, Gen};

/// The C01 space: exhaustive small trees, context x filler products, seeded random trees.
pub struct Space {
    pub patterns: Vec<Node>,
    pub describe: String,
}

pub fn c01_space(tier: Tier, seed: u64, cond: bool, e_quick: usize, e_thorough: usize, fill_quick: usize, fill_thorough: usize, rand_quick: usize, rand_thorough: usize) -> Space {
    let mut g = Gen::new(cond);
    let en = tier.pick(e_quick, e_thorough);
    let fill = tier.pick(fill_quick, fill_thorough);
    let nrand = tier.pick(rand_quick, rand_thorough);
    let mut patterns = g.upto(en);
    let n_e = patterns.len();
    let fillers = g.upto(fill);
    let prods = gen::products(&fillers);
    let n_p = prods.len();
    patterns.extend(prods);
    let rnd = gen::random_patterns(seed, nrand, cond, 6, 14);
    let n_r = rnd.len();
    patterns.extend(rnd);
    Space {
        patterns,
        describe: format!(
            "E({}) = {} trees{} + {} contexts x E({}) = {} products + {} seeded random trees of 6-14 nodes",
            en,
            n_e,
            if cond { " (with conditionals)" } else { "" },
            gen::contexts().len(),
            fill,
            n_p,
            n_r
        ),
    }
}

pub fn texts_c01(len: usize) -> Vec<String> {
    gen::texts(&gen::ALPHA_C01, len)
}
