use frmon::common::*;
use std::time::Instant;

fn main() {
    std::panic::set_hook(Box::new(|_| {}));
    let _ = over_budget(); // starts the process clock
    let args: Vec<String> = std::env::args().collect();
    if args.len() < 3 {
        eprintln!("usage: frmon <C01..C20> <quick|thorough> | frmon --replay <file>");
        std::process::exit(64);
    }
    if args[1] == "--probe" {
        let re = match compile(&args[2]) {
            Got::Val(r) => r,
            o => {
                println!("compile: {}", match o { Got::Err(e) => e, Got::Panic(m) => m, _ => "?".into() });
                return;
            }
        };
        match route(&re) {
            Route::Vm { program, .. } => println!("{}", program),
            r => println!("{:?}", r),
        }
        hook_config(true, Some(10_000_000));
        let from: usize = args.get(4).and_then(|s| s.parse().ok()).unwrap_or(0);
        let got = captures_from(&re, &args[3], from);
        println!("captures_from_pos({:?}, {}) = {}", args[3], from, got.show());
        println!("{:?}", hook_take());
        println!("find_iter = {}", find_iter_seq(&re, &args[3], 50).show());
        return;
    }
    if args[1] == "--replay" {
        let v: serde_json::Value = serde_json::from_str(&std::fs::read_to_string(&args[2]).expect("replay file")).expect("replay json");
        println!("replaying {} / {} : api {}", v["property"], v["monitor"], v["api"]);
        println!("  recorded expected: {}", v["expected"]);
        println!("  recorded observed: {}", v["observed"]);
        let pat = v["pattern"].as_str().unwrap_or("");
        let text = v["text"].as_str().unwrap_or("");
        let from = v["offset"].as_u64().unwrap_or(0) as usize;
        let opts = v["options"].clone();
        let re = compile_with(pat, |b| {
            if let Some(l) = opts["backtrack_limit"].as_u64() {
                b.backtrack_limit(l as usize);
            }
            if let Some(c) = opts["case_insensitive"].as_bool() {
                b.case_insensitive(c);
            }
            if let Some(l) = opts["delegate_size_limit"].as_u64() {
                b.delegate_size_limit(l as usize);
            }
        });
        match re {
            Got::Val(re) => {
                hook_config(true, Some(100_000_000));
                println!("  now: route = {}", match route(&re) { Route::Vm { insns, delegates, .. } => format!("VM program of {} instructions, delegates {:?}", insns, delegates), r => format!("{:?}", r) });
                println!("  now: captures_from_pos({:?}, {}) = {}", text, from, captures_from(&re, text, from).map(|c| show_caps(c)).show());
                println!("  now: find_iter = {}", find_iter_seq(&re, text, 40).show());
                let h = hook_take();
                println!("  now: hook statistics: backtracks {} steps {} aux_mismatch {} shadow_faults {} {:?}", h.backtracks, h.insns, h.aux_mismatch, h.shadow_faults, h.first_fault);
            }
            o => println!("  now: Regex::new = {}", o.map(|_| "Ok").show()),
        }
        if !opts.is_null() {
            println!("  options / extra: {}", opts);
        }
        println!("  (re-run the check that reported it for the verdict: ./check {} quick)", v["property"].as_str().unwrap_or("<id>"));
        return;
    }
    if args[1] == "--f1-probe" {
        // experiment: does the bug-compatible F1 model agree with the crate on the F1 class?
        use frmon::{diff, gen, refm};
        let n: usize = args.get(2).and_then(|s| s.parse().ok()).unwrap_or(4);
        let mut g = gen::Gen::new(false);
        let mut pats: Vec<_> = g.upto(n).into_iter().filter(|p| p.has_f1() && p.f1_loops_all_hard()).collect();
        pats.extend(gen::products(&g.upto(3)).into_iter().filter(|p| p.has_f1() && p.f1_loops_all_hard()));
        let texts = gen::texts(&gen::ALPHA_C01, 3);
        let ctx = Ctx { prop: "F1".into(), tier: Tier::Quick, seed: 1, start: Instant::now(), known: frmon::known::Known::load() };
        fn excl(p: &frmon::ast::Node) -> Option<&'static str> {
            if !p.refs_exist() { Some("x") } else if !p.refs_closed() { Some("y") } else if p.has_bare_backref_cond() { Some("z") } else { None }
        }
        let cfg = diff::DiffCfg { prop: "F1", compare: diff::Compare::All, entry_points: false, ref_budget: refm::BUDGET, step_cap: Some(2_000_000), exclude: &excl, static_known: &diff::no_static_known, style: None, f1_compat: true };
        let acc = diff::run(&ctx, &cfg, &pats, &texts);
        println!("patterns {} evals {} violations {}", pats.len(), acc.evals, acc.n_violations);
        if let Some(set) = acc.distinct_sets.get("violating-patterns") {
            for p in set.iter().take(60) {
                println!("  {}", p);
            }
        }
        for v in acc.violations.iter().take(12) {
            println!("  {} on {:?}@{}: expected {} observed {}", v.pattern, v.text, v.offset, v.expected, v.observed);
        }
        return;
    }
    let prop = args[1].clone();
    let tier = match std::env::var("VERIF_TIER").ok().as_deref().filter(|_| false).or(Some(args[2].as_str())) {
        Some("thorough") => Tier::Thorough,
        _ => Tier::Quick,
    };
    let seed: u64 = std::env::var("VERIF_SEED").ok().and_then(|s| s.parse().ok()).unwrap_or(1);
    let ctx = Ctx { prop: prop.clone(), tier, seed, start: Instant::now(), known: frmon::known::Known::load() };
    let out = match prop.as_str() {
        "C01" => frmon::c01::run(&ctx),
        "C02" => frmon::c02::run(&ctx),
        "C03" => frmon::c03::run(&ctx),
        "C04" => frmon::c04::run(&ctx),
        "C05" => frmon::c05::run(&ctx),
        "C06" => frmon::c06::run(&ctx),
        "C07" => frmon::c07::run(&ctx),
        "C08" => frmon::c08::run(&ctx),
        "C10" => frmon::c10::run(&ctx),
        "C11" => frmon::c11::run(&ctx),
        "C09" => frmon::c09::run(&ctx),
        "C12" => frmon::c12::run(&ctx),
        "C13" => frmon::c13::run(&ctx),
        "C14" => frmon::c14::run(&ctx),
        "C15" => frmon::c15::run(&ctx),
        "C16" => frmon::c16::run(&ctx),
        "C17" => frmon::c17::run(&ctx),
        "C19" => frmon::c19::run(&ctx),
        "C20" => frmon::c20::run(&ctx),
        _ => {
            eprintln!("unknown property {}", prop);
            std::process::exit(64);
        }
    };
    std::process::exit(finish(&ctx, out));
}
