//! Pattern spaces: exhaustive trees up to a node bound, context x filler products, seeded random
//! trees, `(?=)` injection; text spaces.
use crate::ast::{Mode, Node, Node::*, A};
use crate::rng::Rng;
use std::collections::HashMap;

fn b(n: Node) -> Box<Node> {
    Box::new(n)
}
pub fn la() -> Node {
    Node::lit("a")
}
pub fn lb() -> Node {
    Node::lit("b")
}

pub fn atoms_c01() -> Vec<Node> {
    vec![
        Node::lit("a"),
        Node::lit("b"),
        Node::lit("é"),
        // a literal that is a meta-character: wherever it is re-serialised for a delegate it
        // has to be quoted, or it turns into "any character"
        Node::lit("."),
        Any(false),
        Node::class("[ab]"),
        Node::class("[^a]"),
        Assert(A::StartText),
        Assert(A::EndText),
        Assert(A::WordB),
        Assert(A::StartLine),
        Backref(1),
        KeepOut,
        Empty,
    ]
}
/// Leaves used by the seeded random trees only: the remaining assertions, escape classes, a range
/// class, longer and multi-byte literals, dot-matches-newline.
pub fn atoms_ext() -> Vec<Node> {
    vec![
        Assert(A::NotWordB),
        Assert(A::WordStart),
        Assert(A::WordEnd),
        Assert(A::EndLine),
        Assert(A::EndBeforeNl),
        Assert(A::StartLine),
        Node::class("\\w"),
        Node::class("\\W"),
        Node::class("\\s"),
        Node::class("[a-c]"),
        Node::class("[^b]"),
        Node::class("[é\\-]"),
        Node::lit("ab"),
        Node::lit("c"),
        Node::lit("-"),
        Node::lit("\n"),
        Node::lit("aé"),
        Any(true),
    ]
}
/// Quantifier forms used by the seeded random trees in addition to `reps_c01`.
pub fn reps_ext() -> Vec<(u32, Option<u32>, Mode)> {
    vec![(2, Some(3), Mode::Greedy), (0, Some(2), Mode::Lazy), (3, Some(3), Mode::Greedy), (1, None, Mode::Poss), (2, Some(2), Mode::Poss), (1, Some(2), Mode::Poss), (2, None, Mode::Lazy), (2, Some(2), Mode::Lazy)]
}
pub fn reps_c01() -> Vec<(u32, Option<u32>, Mode)> {
    vec![
        (0, Some(1), Mode::Greedy),
        (0, None, Mode::Greedy),
        (1, None, Mode::Greedy),
        (0, Some(1), Mode::Lazy),
        (0, None, Mode::Lazy),
        (1, None, Mode::Lazy),
        (2, Some(2), Mode::Greedy),
        (1, Some(2), Mode::Greedy),
        (1, Some(2), Mode::Lazy),
        (2, None, Mode::Greedy),
        (0, None, Mode::Poss),
        (0, Some(1), Mode::Poss),
        // `{0}`: the body (and its groups) can never take part
        (0, Some(0), Mode::Greedy),
    ]
}
pub fn repeatable(n: &Node) -> bool {
    !matches!(n, Look(..) | Empty | Assert(_) | Flags(_, _, None))
}

/// Exhaustive enumeration of trees by node count.
pub struct Gen {
    memo: HashMap<usize, Vec<Node>>,
    pub atoms: Vec<Node>,
    pub reps: Vec<(u32, Option<u32>, Mode)>,
    pub cond: bool,
    pub fancy: bool,
    pub contg: bool,
    /// common-syntax extras: named groups, non-capturing groups, scoped flag groups
    pub common: bool,
}
impl Gen {
    pub fn new(cond: bool) -> Self {
        Gen { memo: HashMap::new(), atoms: atoms_c01(), reps: reps_c01(), cond, fancy: true, contg: false, common: false }
    }
    pub fn with_atoms(atoms: Vec<Node>, reps: Vec<(u32, Option<u32>, Mode)>, cond: bool, fancy: bool) -> Self {
        Gen { memo: HashMap::new(), atoms, reps, cond, fancy, contg: false, common: false }
    }
    pub fn upto(&mut self, n: usize) -> Vec<Node> {
        let mut v = vec![];
        for i in 1..=n {
            v.extend(self.of_size(i));
        }
        v
    }
    pub fn of_size(&mut self, n: usize) -> Vec<Node> {
        if let Some(v) = self.memo.get(&n) {
            return v.clone();
        }
        let mut out = vec![];
        if n == 1 {
            out = self.atoms.clone();
            if self.contg {
                out.push(ContG);
            }
            if self.cond {
                out.push(GroupExists(1));
            }
        } else {
            for c in self.of_size(n - 1) {
                out.push(Node::group(c.clone()));
                if self.fancy {
                    out.push(Atomic(b(c.clone())));
                    for (bh, ng) in [(false, false), (false, true), (true, false), (true, true)] {
                        out.push(Look(b(c.clone()), bh, ng));
                    }
                }
                if repeatable(&c) {
                    for (lo, hi, m) in self.reps.clone() {
                        out.push(Repeat(b(c.clone()), lo, hi, m));
                    }
                }
                // `(?(1))` alone is the group-exists test (atom GroupExists(1)); a conditional whose
                // branches are both empty is written `(?(1)|)` and always succeeds
                if self.cond {
                    out.push(CondGroup(1, b(c.clone()), b(Empty)));
                }
                if self.common {
                    out.push(Group(Some(String::new()), b(c.clone())));
                    for (on, off) in [("i", ""), ("s", ""), ("m", ""), ("x", ""), ("U", ""), ("", "i")] {
                        out.push(Flags(on.into(), off.into(), Some(b(c.clone()))));
                    }
                }
            }
            for l in 1..n - 1 {
                let r = n - 1 - l;
                let ls = self.of_size(l);
                let rs = self.of_size(r);
                for a in &ls {
                    for bb in &rs {
                        if !matches!(a, Concat(_)) && *a != Empty && *bb != Empty {
                            let mut v = vec![a.clone()];
                            if let Concat(w) = bb {
                                v.extend(w.iter().cloned());
                            } else {
                                v.push(bb.clone());
                            }
                            out.push(Concat(v));
                        }
                        if !matches!(a, Alt(_)) {
                            let mut v = vec![a.clone()];
                            if let Alt(w) = bb {
                                v.extend(w.iter().cloned());
                            } else {
                                v.push(bb.clone());
                            }
                            out.push(Alt(v));
                        }
                        if self.cond {
                            out.push(CondGroup(1, b(a.clone()), b(bb.clone())));
                            if *a != Empty && !matches!(a, Backref(_)) {
                                out.push(CondExpr(b(a.clone()), b(bb.clone()), b(Empty)));
                            }
                        }
                    }
                }
            }
            if self.cond && n >= 4 {
                for l in 1..n - 2 {
                    for mid in 1..n - 1 - l {
                        let r = n - 1 - l - mid;
                        if r == 0 {
                            continue;
                        }
                        let (ls, ms, rs) = (self.of_size(l), self.of_size(mid), self.of_size(r));
                        for a in &ls {
                            if *a == Empty || matches!(a, Backref(_)) {
                                continue;
                            }
                            for m in &ms {
                                for c in &rs {
                                    out.push(CondExpr(b(a.clone()), b(m.clone()), b(c.clone())));
                                }
                            }
                        }
                    }
                }
            }
        }
        self.memo.insert(n, out.clone());
        out
    }
}

pub type Ctx = (&'static str, Box<dyn Fn(Node) -> Node + Send + Sync>);

/// Contexts with a hole; each forces a different hard/easy partition around the filler.
pub fn contexts() -> Vec<Ctx> {
    let ab = || Node::lit("ab");
    let mut v: Vec<Ctx> = vec![
        ("(X)\\1", Box::new(move |x| Concat(vec![Node::group(x), Backref(1)]))),
        ("(?=(X))\\1b", Box::new(move |x| Concat(vec![Look(b(Node::group(x)), false, false), Backref(1), lb()]))),
        ("(?=X)a", Box::new(move |x| Concat(vec![Look(b(x), false, false), la()]))),
        ("(?>X)a", Box::new(move |x| Concat(vec![Atomic(b(x)), la()]))),
        ("(?>(a|ab)X)b", Box::new(move |x| Concat(vec![Atomic(b(Concat(vec![Node::group(Alt(vec![la(), ab()])), x]))), lb()]))),
        ("(?:X)*a", Box::new(move |x| Concat(vec![Repeat(b(x), 0, None, Mode::Greedy), la()]))),
        ("(?:X)+?b", Box::new(move |x| Concat(vec![Repeat(b(x), 1, None, Mode::Lazy), lb()]))),
        ("((X)){2}", Box::new(move |x| Repeat(b(Node::group(Node::group(x))), 2, Some(2), Mode::Greedy))),
        ("a(?<=X)", Box::new(move |x| Concat(vec![la(), Look(b(x), true, false)]))),
        ("(?<!X)b", Box::new(move |x| Concat(vec![Look(b(x), true, true), lb()]))),
        ("(?!X)[ab]", Box::new(move |x| Concat(vec![Look(b(x), false, true), Node::class("[ab]")]))),
        ("(?:(X))?(?(1)a|b)", Box::new(move |x| Concat(vec![Repeat(b(Node::group(x)), 0, Some(1), Mode::Greedy), CondGroup(1, b(la()), b(lb()))]))),
        ("(?(X)a|b)", Box::new(move |x| CondExpr(b(x), b(la()), b(lb())))),
        ("(?:X|a)b", Box::new(move |x| Concat(vec![Alt(vec![x, la()]), lb()]))),
        ("(?:a|X)\\Kb", Box::new(move |x| Concat(vec![Alt(vec![la(), x]), KeepOut, lb()]))),
        ("(a)X\\1", Box::new(move |x| Concat(vec![Node::group(la()), x, Backref(1)]))),
        ("(?:(a)|X)*b", Box::new(move |x| Concat(vec![Repeat(b(Alt(vec![Node::group(la()), x])), 0, None, Mode::Greedy), lb()]))),
        ("((a)|X){2}\\2?", Box::new(move |x| Concat(vec![Repeat(b(Node::group(Alt(vec![Node::group(la()), x]))), 2, Some(2), Mode::Greedy), Repeat(b(Backref(2)), 0, Some(1), Mode::Greedy)]))),
        ("(?>(?(X)a|b)\\b)", Box::new(move |x| Atomic(b(Concat(vec![CondExpr(b(x), b(la()), b(lb())), Assert(A::WordB)]))))),
        ("(?=(a|ab)X)\\1", Box::new(move |x| Concat(vec![Look(b(Concat(vec![Node::group(Alt(vec![la(), ab()])), x])), false, false), Backref(1)]))),
        ("(?<=(X))b\\1?", Box::new(move |x| Concat(vec![Look(b(Node::group(x)), true, false), lb(), Repeat(b(Backref(1)), 0, Some(1), Mode::Greedy)]))),
        ("(?:X){1,2}?\\b", Box::new(move |x| Concat(vec![Repeat(b(x), 1, Some(2), Mode::Lazy), Assert(A::WordB)]))),
        ("(?:X)?+a", Box::new(move |x| Concat(vec![Repeat(b(x), 0, Some(1), Mode::Poss), la()]))),
        ("(?!(?>X)b)a?", Box::new(move |x| Concat(vec![Look(b(Concat(vec![Atomic(b(x)), lb()])), false, true), Repeat(b(la()), 0, Some(1), Mode::Greedy)]))),
        ("\\bX(?=b)", Box::new(move |x| Concat(vec![Assert(A::WordB), x, Look(b(lb()), false, false)]))),
        // look-arounds with capturing branches: which branch was committed is visible afterwards
        ("(?<=(a)|(X))\\2", Box::new(move |x| Concat(vec![Look(b(Alt(vec![Node::group(la()), Node::group(x)])), true, false), Backref(2)]))),
        ("(?=(a)|(X))\\2", Box::new(move |x| Concat(vec![Look(b(Alt(vec![Node::group(la()), Node::group(x)])), false, false), Backref(2)]))),
        // an atomic group whose only leftover alternatives come from a look-behind with
        // alternatives of two lengths (compiled as an alternation of look-behinds)
        ("(?>(?<=a|(X).))\\1", Box::new(move |x| Concat(vec![Atomic(b(Look(b(Alt(vec![la(), Concat(vec![Node::group(x), Any(false)])])), true, false))), Backref(1)]))),
        ("(?>(?<=(a)|(X).)b)(?(2)a|b)", Box::new(move |x| Concat(vec![Atomic(b(Concat(vec![Look(b(Alt(vec![Node::group(la()), Concat(vec![Node::group(x), Any(false)])])), true, false), lb()]))), CondGroup(2, b(la()), b(lb()))]))),
        ("(?<=(X)|(.))(?(2)b|a)", Box::new(move |x| Concat(vec![Look(b(Alt(vec![Node::group(x), Node::group(Any(false))])), true, false), CondGroup(2, b(lb()), b(la()))]))),
        ("(?>(a)|(X))\\2?b", Box::new(move |x| Concat(vec![Atomic(b(Alt(vec![Node::group(la()), Node::group(x)]))), Repeat(b(Backref(2)), 0, Some(1), Mode::Greedy), lb()]))),
        // a counted repeat as the WHOLE body of a committing construct: iteration k must be able
        // to give characters back when iteration k+1 fails
        ("(?>(?:\\bX){2})", Box::new(move |x| Atomic(b(Repeat(b(Concat(vec![Assert(A::WordB), x])), 2, Some(2), Mode::Greedy))))),
        ("(?=(?:(?!b)X){2,})[ab]+", Box::new(move |x| Concat(vec![Look(b(Repeat(b(Concat(vec![Look(b(lb()), false, true), x])), 2, None, Mode::Greedy)), false, false), Repeat(b(Node::class("[ab]")), 1, None, Mode::Greedy)]))),
        ("(?>(?:(a)\\1|X){1,2})b", Box::new(move |x| Concat(vec![Atomic(b(Repeat(b(Alt(vec![Concat(vec![Node::group(la()), Backref(1)]), x])), 1, Some(2), Mode::Greedy))), lb()]))),
        // a group that is only TESTED by a condition, inside an equal-width alternation
        ("(?:.|(X))(?(1)a|b)", Box::new(move |x| Concat(vec![Alt(vec![Any(false), Node::group(x)]), CondGroup(1, b(la()), b(lb()))]))),
        ("(?>(X)*)(?(1)b|c)", Box::new(move |x| Concat(vec![Atomic(b(Repeat(b(Node::group(x)), 0, None, Mode::Greedy))), CondGroup(1, b(lb()), b(Node::lit("c")))]))),
        // positive look-arounds nested two and three deep, evaluated at different offsets
        ("(?=a(?=X))[ab]", Box::new(move |x| Concat(vec![Look(b(Concat(vec![la(), Look(b(x), false, false)])), false, false), Node::class("[ab]")]))),
        ("(?<=(?=X)[ab])", Box::new(move |x| Look(b(Concat(vec![Look(b(x), false, false), Node::class("[ab]")])), true, false))),
        ("(?<=(?=(?=X)a).)b?", Box::new(move |x| Concat(vec![Look(b(Concat(vec![Look(b(Concat(vec![Look(b(x), false, false), la()])), false, false), Any(false)])), true, false), Repeat(b(lb()), 0, Some(1), Mode::Greedy)]))),
        // a bounded repeat with a hard body and an easy variable tail as the LAST element of a
        // committing construct
        ("(?>(?:(?!c)(a|ab)){2})X", Box::new(move |x| Concat(vec![Atomic(b(Repeat(b(Concat(vec![Look(b(Node::lit("c")), false, true), Node::group(Alt(vec![la(), ab()]))])), 2, Some(2), Mode::Greedy))), x]))),
        ("(?=(?:X(a|ab)){2})\\1?", Box::new(move |x| Concat(vec![Look(b(Repeat(b(Concat(vec![x, Node::group(Alt(vec![la(), ab()]))])), 2, Some(2), Mode::Greedy)), false, false), Repeat(b(Backref(1)), 0, Some(1), Mode::Greedy)]))),
        // references from inside a nested group to an OUTER group that is still open, in a loop
        ("(?:((X|a)b)c)+", Box::new(move |x| Repeat(b(Concat(vec![Node::group(Concat(vec![Node::group(Alt(vec![x, la()])), lb()])), Node::lit("c")])), 1, None, Mode::Greedy))),
        ("(?:a((X)|))+", Box::new(move |x| Repeat(b(Concat(vec![la(), Node::group(Alt(vec![Node::group(x), Empty]))])), 1, None, Mode::Greedy))),
        // capture groups in BOTH branches of a conditional (numbering must follow the text order)
        ("(?(X)(a)|(b))", Box::new(move |x| CondExpr(b(x), b(Node::group(la())), b(Node::group(lb()))))),
        ("(?:(X))?(?(1)(a)|(b))\\3?", Box::new(move |x| Concat(vec![Repeat(b(Node::group(x)), 0, Some(1), Mode::Greedy), CondGroup(1, b(Node::group(la())), b(Node::group(lb()))), Repeat(b(Backref(3)), 0, Some(1), Mode::Greedy)]))),
        ("(?(X)(a)|(.))(?:\\1|\\2)", Box::new(move |x| Concat(vec![CondExpr(b(x), b(Node::group(la())), b(Node::group(Any(false)))), Alt(vec![Backref(1), Backref(2)])]))),
        // look-behind alternations with three alternatives of sizes s, t, s and groups: the
        // alternatives must be tried in the order written
        ("(?<=(X)|bb|(.))", Box::new(move |x| Look(b(Alt(vec![Node::group(x), Node::lit("bb"), Node::group(Any(false))])), true, false))),
        ("(?<=a|(X)|(b))c?", Box::new(move |x| Concat(vec![Look(b(Alt(vec![la(), Node::group(x), Node::group(lb())])), true, false), Repeat(b(Node::lit("c")), 0, Some(1), Mode::Greedy)]))),
        ("(?<=(a)b|(X)|(b)b)", Box::new(move |x| Look(b(Alt(vec![Concat(vec![Node::group(la()), lb()]), Node::group(x), Concat(vec![Node::group(lb()), lb()])])), true, false))),
        // atomic groups nested three deep around loops (undo records folded into shallower frames)
        ("(?>(?>(?>X)+)+)", Box::new(move |x| Atomic(b(Repeat(b(Atomic(b(Repeat(b(Atomic(b(x))), 1, None, Mode::Greedy)))), 1, None, Mode::Greedy))))),
        ("(?>(?>(?>X)+b?)+)a", Box::new(move |x| Concat(vec![Atomic(b(Repeat(b(Atomic(b(Concat(vec![Repeat(b(Atomic(b(x))), 1, None, Mode::Greedy), Repeat(b(lb()), 0, Some(1), Mode::Greedy)])))), 1, None, Mode::Greedy))), la()]))),
        // a positive look-around inside a counted repeat inside a look-behind
        ("((?<=(?:(?=X)[ab]){2}))", Box::new(move |x| Node::group(Look(b(Repeat(b(Concat(vec![Look(b(x), false, false), Node::class("[ab]")])), 2, Some(2), Mode::Greedy)), true, false)))),
        ("(?<=(?:(?=X)a){2})b?", Box::new(move |x| Concat(vec![Look(b(Repeat(b(Concat(vec![Look(b(x), false, false), la()])), 2, Some(2), Mode::Greedy)), true, false), Repeat(b(lb()), 0, Some(1), Mode::Greedy)]))),
        // an outer look-around whose body holds TWO positive look-arounds one after the other
        ("(?<=(?=X)(?=a)[ab])", Box::new(move |x| Look(b(Concat(vec![Look(b(x), false, false), Look(b(la()), false, false), Node::class("[ab]")])), true, false))),
        ("(?<=(?=a)a(?<=X)b)c?", Box::new(move |x| Concat(vec![Look(b(Concat(vec![Look(b(la()), false, false), la(), Look(b(x), true, false), lb()])), true, false), Repeat(b(Node::lit("c")), 0, Some(1), Mode::Greedy)]))),
        ("(?=(?=X)a(?=b)b)[ab]", Box::new(move |x| Concat(vec![Look(b(Concat(vec![Look(b(x), false, false), la(), Look(b(lb()), false, false), lb()])), false, false), Node::class("[ab]")]))),
        // a referenced group with a VM-compiled body inside a negative look-around
        ("(?!(\\bX)\\1)[ab]+", Box::new(move |x| Concat(vec![Look(b(Concat(vec![Node::group(Concat(vec![Assert(A::WordB), x])), Backref(1)])), false, true), Repeat(b(Node::class("[ab]")), 1, None, Mode::Greedy)]))),
        ("\\b(?!(X\\b)\\1?c)[abc]+", Box::new(move |x| Concat(vec![Assert(A::WordB), Look(b(Concat(vec![Node::group(Concat(vec![x, Assert(A::WordB)])), Repeat(b(Backref(1)), 0, Some(1), Mode::Greedy), Node::lit("c")])), false, true), Repeat(b(Node::class("[abc]")), 1, None, Mode::Greedy)]))),
        // one delegated run that starts with a capture group and ends with a non-capturing one
        ("(X)(?:a|b)(?!c)", Box::new(move |x| Concat(vec![Node::group(x), Alt(vec![la(), lb()]), Look(b(Node::lit("c")), false, true)]))),
        ("\\b(a)X(?:b|c)", Box::new(move |x| Concat(vec![Assert(A::WordB), Node::group(la()), x, Alt(vec![lb(), Node::lit("c")])]))),
        // a backreference inside a negative look-around that is reached twice at one position
        // with different contents of the group
        ("(X)b(?!\\1c)", Box::new(move |x| Concat(vec![Node::group(x), lb(), Look(b(Concat(vec![Backref(1), Node::lit("c")])), false, true)]))),
        ("(?:(a)|X)(?!\\1)", Box::new(move |x| Concat(vec![Alt(vec![Node::group(la()), x]), Look(b(Backref(1)), false, true)]))),
        // two delegated pieces with capture groups, the second with more groups than the first
        ("(X)\\b(a)(b)?", Box::new(move |x| Concat(vec![Node::group(x), Assert(A::WordB), Node::group(la()), Repeat(b(Node::group(lb())), 0, Some(1), Mode::Greedy)]))),
        ("(?=(X))(a)(b)", Box::new(move |x| Concat(vec![Look(b(Node::group(x)), false, false), Node::group(la()), Node::group(lb())]))),
        // a capture group as the whole body of an atomic group, hard start, variable easy end
        ("(?>(\\bX))b?", Box::new(move |x| Concat(vec![Atomic(b(Node::group(Concat(vec![Assert(A::WordB), x])))), Repeat(b(lb()), 0, Some(1), Mode::Greedy)]))),
        // \K inside a conditional (condition, branch, look-around in the condition)
        ("(?(X)a\\K|b)", Box::new(move |x| CondExpr(b(x), b(Concat(vec![la(), KeepOut])), b(lb())))),
        ("(?((?<=\\Ka))X|b)", Box::new(move |x| CondExpr(b(Look(b(Concat(vec![KeepOut, la()])), true, false)), b(x), b(lb())))),
        ("(?((?=a))a(?=X\\K)|b)", Box::new(move |x| CondExpr(b(Look(b(la()), false, false)), b(Concat(vec![la(), Look(b(Concat(vec![x, KeepOut])), false, false)])), b(lb())))),
        // a delegate with groups that is reached twice at one position (after backtracking undid
        // its saves)
        ("(?:(a)|(.))(?=(X))\\2", Box::new(move |x| Concat(vec![Alt(vec![Node::group(la()), Node::group(Any(false))]), Look(b(Node::group(x)), false, false), Backref(2)]))),
        ("(?:(?>(X))+){2}", Box::new(move |x| Repeat(b(Repeat(b(Atomic(b(Node::group(x)))), 1, None, Mode::Greedy)), 2, Some(2), Mode::Greedy))),
        // a counted repeat with a hard body as the last element of a committing construct, a literal behind it
        ("(?=(?:\\b(aX)|(a)){1,2})a", Box::new(move |x| Concat(vec![Look(b(Repeat(b(Alt(vec![Concat(vec![Assert(A::WordB), Node::group(Concat(vec![la(), x]))]), Node::group(la())])), 1, Some(2), Mode::Greedy)), false, false), la()]))),
        ("(?>(?>X){1,2})a", Box::new(move |x| Concat(vec![Atomic(b(Repeat(b(Atomic(b(x))), 1, Some(2), Mode::Greedy))), la()]))),
        // a look-behind alternative that is itself a group holding an alternation (lengths may differ: must be rejected)
        ("(?<=a|(?:b|X))c?", Box::new(move |x| Concat(vec![Look(b(Alt(vec![la(), NonCap(b(Alt(vec![lb(), x])))])), true, false), Repeat(b(Node::lit("c")), 0, Some(1), Mode::Greedy)]))),
        ("(?<!(?:X|ab)|a)b", Box::new(move |x| Concat(vec![Look(b(Alt(vec![NonCap(b(Alt(vec![x, ab()]))), la()])), true, true), lb()]))),
        // a second group-carrying delegate whose group sits in a {0} repeat (the automata engine never writes its slots)
        ("(a)(?=b)b(X){0}c", Box::new(move |x| Concat(vec![Node::group(la()), Look(b(lb()), false, false), lb(), Repeat(b(Node::group(x)), 0, Some(0), Mode::Greedy), Node::lit("c")]))),
        ("(X)\\bb(a){0}(c)", Box::new(move |x| Concat(vec![Node::group(x), Assert(A::WordB), lb(), Repeat(b(Node::group(la())), 0, Some(0), Mode::Greedy), Node::group(Node::lit("c"))]))),
        // a look-behind alternation with alternatives of different length, both capturing, both
        // matching at one position, the reference needs the LATER one
        ("(?<=(b)|(X))\\2", Box::new(move |x| Concat(vec![Look(b(Alt(vec![Node::group(lb()), Node::group(x)])), true, false), Backref(2)]))),
        ("(?<=(b)|(aX))(?:\\2|b)", Box::new(move |x| Concat(vec![Look(b(Alt(vec![Node::group(lb()), Node::group(Concat(vec![la(), x]))])), true, false), Alt(vec![Backref(2), lb()])]))),
        // a dot in a VM-compiled look-behind body that may step to the left of the search start
        ("(?<=\\b(X)(?!a))", Box::new(move |x| Look(b(Concat(vec![Assert(A::WordB), Node::group(x), Look(b(la()), false, true)])), true, false))),
        ("(?<=(?=)(.)(?!X))-?", Box::new(move |x| Concat(vec![Look(b(Concat(vec![Look(b(Empty), false, false), Node::group(Any(false)), Look(b(x), false, true)])), true, false), Repeat(b(Node::lit("-")), 0, Some(1), Mode::Greedy)]))),
        // an optional group that ends in a negative look-around (its Split branch and the
        // look-around's own branch sit next to each other on the stack)
        ("a(?:X|(?!b))?b", Box::new(move |x| Concat(vec![la(), Repeat(b(Alt(vec![x, Look(b(lb()), false, true)])), 0, Some(1), Mode::Greedy), lb()]))),
    ];
    v.shrink_to_fit();
    v
}

/// In a context the filler's own group numbers shift; fillers that use `\1` refer to whatever
/// group 1 is in the product, which is fine (class filters are evaluated on the product).
pub fn products(fillers: &[Node]) -> Vec<Node> {
    let ctxs = contexts();
    let mut out = Vec::with_capacity(ctxs.len() * fillers.len());
    for (_, c) in &ctxs {
        for f in fillers {
            out.push(c(f.clone()));
        }
    }
    out
}

/// `\G` / `\K` variants for the iteration properties
pub fn g_contexts(base: &[Node]) -> Vec<Node> {
    let mut out = vec![];
    for x in base {
        out.push(Concat(vec![ContG, x.clone()]));
        out.push(Concat(vec![Alt(vec![ContG, la()]), x.clone()]));
        out.push(Concat(vec![x.clone(), KeepOut, lb()]));
        out.push(Concat(vec![Repeat(b(Concat(vec![x.clone(), KeepOut])), 0, Some(1), Mode::Greedy), lb()]));
        // alternatives pinned to different offsets by `^` inside look-behinds: more than one match
        out.push(Alt(vec![Concat(vec![Assert(A::StartText), x.clone()]), Concat(vec![Look(b(Concat(vec![Assert(A::StartText), x.clone()])), true, false), Node::class("[ab]")])]));
        out.push(Alt(vec![Assert(A::StartText), Look(b(Concat(vec![Assert(A::StartText), x.clone()])), true, false)]));
        // `\G` that may be skipped: the pattern does not start at the search position only
        out.push(Concat(vec![Repeat(b(Concat(vec![ContG, x.clone()])), 0, Some(1), Mode::Greedy), lb()]));
        out.push(Concat(vec![Repeat(b(ContG), 0, Some(1), Mode::Greedy), x.clone()]));
        out.push(Concat(vec![Repeat(b(Node::group(Concat(vec![ContG, la()]))), 0, None, Mode::Greedy), x.clone()]));
        // `\G` reached by stepping back: it holds at the search position only, not in front of it
        out.push(Concat(vec![Look(b(Concat(vec![ContG, Any(false)])), true, false), x.clone()]));
        out.push(Concat(vec![Look(b(Concat(vec![ContG, Any(false), Any(false)])), true, false), x.clone()]));
        out.push(Concat(vec![Look(b(Concat(vec![ContG, Any(false)])), true, true), x.clone()]));
        out.push(Alt(vec![Node::lit("aa"), Concat(vec![Look(b(Concat(vec![ContG, Any(false), Any(false)])), true, false), x.clone()])]));
        // a leading literal that a look-behind steps back over, to a `\G` / `\K`
        out.push(Concat(vec![la(), Look(b(Concat(vec![ContG, la()])), true, false), x.clone()]));
        out.push(Concat(vec![lb(), Look(b(Concat(vec![KeepOut, la(), lb()])), true, false), x.clone()]));
    }
    out
}

/// Seeded random tree with roughly `budget` nodes.
pub fn random_tree(rng: &mut Rng, budget: usize, cond: bool, groups_so_far: &mut usize) -> Node {
    if budget <= 1 {
        // one leaf in four comes from the wider vocabulary that the exhaustive spaces leave out
        if rng.chance(1, 4) {
            let ext = atoms_ext();
            return ext[rng.below(ext.len() as u64) as usize].clone();
        }
        let atoms = atoms_c01();
        let k = rng.below(atoms.len() as u64 + 2) as usize;
        return if k < atoms.len() {
            match &atoms[k] {
                Backref(_) => Backref(1 + rng.below((*groups_so_far).max(1) as u64) as usize),
                a => a.clone(),
            }
        } else if k == atoms.len() {
            Node::lit("ab")
        } else {
            Node::class("[^b]")
        };
    }
    let choice = rng.below(if cond { 14 } else { 12 });
    match choice {
        0 | 1 => {
            let l = 1 + rng.below(budget as u64 - 1) as usize;
            let a = random_tree(rng, l, cond, groups_so_far);
            let c = random_tree(rng, budget.saturating_sub(1 + l).max(1), cond, groups_so_far);
            let mut v = vec![];
            for n in [a, c] {
                match n {
                    Concat(w) => v.extend(w),
                    Empty => {}
                    other => v.push(other),
                }
            }
            match v.len() {
                0 => Empty,
                1 => v.pop().unwrap(),
                _ => Concat(v),
            }
        }
        2 | 3 => {
            let l = 1 + rng.below(budget as u64 - 1) as usize;
            let a = random_tree(rng, l, cond, groups_so_far);
            let c = random_tree(rng, budget.saturating_sub(1 + l).max(1), cond, groups_so_far);
            let mut v = vec![];
            for n in [a, c] {
                match n {
                    Alt(w) => v.extend(w),
                    other => v.push(other),
                }
            }
            Alt(v)
        }
        4 | 5 => {
            *groups_so_far += 1;
            Node::group(random_tree(rng, budget - 1, cond, groups_so_far))
        }
        6 => Atomic(b(random_tree(rng, budget - 1, cond, groups_so_far))),
        7 | 8 => {
            let body = random_tree(rng, (budget - 1).min(4), cond, groups_so_far);
            Look(b(body), rng.below(3) == 0, rng.below(3) == 0)
        }
        9 | 10 | 11 => {
            let c = random_tree(rng, budget - 1, cond, groups_so_far);
            if !repeatable(&c) {
                return c;
            }
            let mut reps = reps_c01();
            reps.extend(reps_ext());
            let (lo, hi, m) = reps[rng.below(reps.len() as u64) as usize];
            Repeat(b(c), lo, hi, m)
        }
        12 => {
            let y = random_tree(rng, (budget - 1) / 2, cond, groups_so_far);
            let n = random_tree(rng, (budget - 1) / 2, cond, groups_so_far);
            let g = 1 + rng.below((*groups_so_far).max(1) as u64) as usize;
            if y == Empty && n == Empty {
                return GroupExists(g);
            }
            CondGroup(g, b(y), b(n))
        }
        _ => {
            let c = random_tree(rng, ((budget - 1) / 3).max(1), cond, groups_so_far);
            let y = random_tree(rng, ((budget - 1) / 3).max(1), cond, groups_so_far);
            let n = random_tree(rng, ((budget - 1) / 3).max(1), cond, groups_so_far);
            if c == Empty || matches!(c, Backref(_)) {
                return y;
            }
            CondExpr(b(c), b(y), b(n))
        }
    }
}

pub fn random_patterns(seed: u64, count: usize, cond: bool, lo: usize, hi: usize) -> Vec<Node> {
    let mut rng = Rng::new(seed);
    let mut out = Vec::with_capacity(count);
    let mut tries = 0;
    while out.len() < count && tries < count * 50 {
        tries += 1;
        let budget = lo + rng.below((hi - lo + 1) as u64) as usize;
        let mut g = 0;
        let t = random_tree(&mut rng, budget, cond, &mut g);
        if t.refs_exist() {
            out.push(t);
        }
    }
    out
}

pub fn texts(alpha: &[&str], maxlen: usize) -> Vec<String> {
    let mut out = vec![String::new()];
    let mut layer = vec![String::new()];
    for _ in 0..maxlen {
        let mut next = vec![];
        for t in &layer {
            for a in alpha {
                next.push(format!("{}{}", t, a));
            }
        }
        out.extend(next.iter().cloned());
        layer = next;
    }
    out
}
pub const ALPHA_C01: [&str; 6] = ["a", "b", "c", "é", "\n", "-"];
pub const ALPHA_MB: [&str; 5] = ["a", "é", "€", "😀", "\n"];

pub fn random_texts(seed: u64, alpha: &[&str], count: usize, lo: usize, hi: usize) -> Vec<String> {
    let mut rng = Rng::new(seed ^ 0x7e87);
    (0..count)
        .map(|_| {
            let n = lo + rng.below((hi - lo + 1) as u64) as usize;
            (0..n).map(|_| alpha[rng.below(alpha.len() as u64) as usize]).collect::<String>()
        })
        .collect()
}

pub fn offsets(t: &str) -> impl Iterator<Item = usize> + '_ {
    (0..=t.len()).filter(move |&i| t.is_char_boundary(i))
}

fn inj() -> Node {
    Look(b(Empty), false, false)
}
fn cat(v: Vec<Node>) -> Node {
    let mut out = vec![];
    for n in v {
        match n {
            Concat(w) => out.extend(w),
            other => out.push(other),
        }
    }
    Concat(out)
}

/// All single-site `(?=)` injections (before / after every node, at any depth).
pub fn inject_all(n: &Node) -> Vec<Node> {
    let mut out = vec![];
    out.push(cat(vec![inj(), n.clone()]));
    out.push(cat(vec![n.clone(), inj()]));
    let kids = n.children();
    for i in 0..kids.len() {
        for v in inject_all(kids[i]) {
            out.push(replace_child(n, i, v));
        }
    }
    out
}

pub fn replace_child(n: &Node, i: usize, v: Node) -> Node {
    let mut n = n.clone();
    match &mut n {
        Concat(w) | Alt(w) => w[i] = v,
        Group(_, c) | NonCap(c) | Atomic(c) | Repeat(c, ..) | Look(c, ..) | Flags(_, _, Some(c)) => **c = v,
        CondGroup(_, y, no) => {
            if i == 0 {
                **y = v
            } else {
                **no = v
            }
        }
        CondExpr(c, y, no) => match i {
            0 => **c = v,
            1 => **y = v,
            _ => **no = v,
        },
        _ => unreachable!(),
    }
    // a Concat child of a Concat is flattened so that the printed form stays canonical
    if let Concat(w) = &n {
        if w.iter().any(|c| matches!(c, Concat(_))) {
            return cat(w.clone());
        }
    }
    n
}

/// number of injection sites = 2 per node
pub fn inject_random(n: &Node, rng: &mut Rng, sites: usize) -> Node {
    let mut cur = n.clone();
    for _ in 0..sites {
        let all = inject_all(&cur);
        cur = all[rng.below(all.len() as u64) as usize].clone();
    }
    cur
}

/// Counted repeats with bounds of two to four digits (the exhaustive spaces stop at 3), each
/// with texts just below, at and above the bound. Returns (pattern, its texts).
pub fn big_count_family(max_n: u32) -> Vec<(Node, Vec<String>)> {
    let mut out = vec![];
    for n in [10u32, 11, 20, 99, 100, 101, 105, 110, 200, 209, 256, 1000, 1005, 1100] {
        if n > max_n {
            continue;
        }
        let k = n as usize;
        let mut texts: Vec<String> = vec![];
        for m in [k / 10, k / 10 + 5, k - 1, k, k + 1] {
            texts.push("a".repeat(m));
            texts.push(format!("{}c", "a".repeat(m)));
            texts.push(format!("b{}b", "a".repeat(m)));
        }
        for m in [k / 10, k - 1, k, k + 1] {
            texts.push("ab".repeat(m));
            texts.push(format!("{}b", "ba".repeat(m)));
        }
        texts.push("a".repeat(2 * k));
        texts.push(format!("{} {}", "a".repeat(k), "a".repeat(k + 1)));
        let a = la;
        let pats = vec![
            Repeat(b(a()), n, Some(n), Mode::Greedy),
            Repeat(b(a()), n, None, Mode::Greedy),
            Repeat(b(a()), n, None, Mode::Lazy),
            Concat(vec![Repeat(b(Node::class("[ab]")), 2, Some(n), Mode::Greedy), Node::lit("c")]),
            Concat(vec![Repeat(b(Node::class("[ab]")), 1, Some(n), Mode::Lazy), lb()]),
            Repeat(b(Node::lit("ab")), n, Some(n), Mode::Greedy),
            Concat(vec![Node::group(Repeat(b(a()), n, Some(n), Mode::Greedy)), Repeat(b(Backref(1)), 0, Some(1), Mode::Greedy)]),
            Concat(vec![Assert(A::WordB), Repeat(b(a()), n, Some(n), Mode::Greedy), Assert(A::WordB)]),
            Concat(vec![Repeat(b(Alt(vec![a(), lb()])), n, Some(n), Mode::Greedy), lb()]),
            Concat(vec![Look(b(Repeat(b(a()), n, Some(n + 1), Mode::Greedy)), false, false), Repeat(b(a()), 1, None, Mode::Greedy)]),
            Atomic(b(Repeat(b(a()), n - 1, Some(n), Mode::Greedy))),
            Concat(vec![Look(b(Repeat(b(a()), n, Some(n), Mode::Greedy)), true, false), Node::lit("c")]),
        ];
        for p in pats {
            out.push((p, texts.clone()));
        }
    }
    out
}

/// Patterns whose match state is wide: 3-8 capture groups inside a counted loop with a word
/// boundary assertion (so the VM runs it), a tail that makes the last iteration fail on some
/// texts, and a fallback alternative. `fancy` also allows look-around, backreference tails.
pub fn wide_group_family(seed: u64, count: usize, fancy: bool) -> Vec<(Node, Vec<String>)> {
    let letters = ["a", "b", "c", "d", "e", "f", "g", "h"];
    let mut rng = Rng::new(seed ^ 0x61DE);
    let mut out = vec![];
    for _ in 0..count {
        let k = 3 + rng.below(6) as usize;
        let mut body: Vec<Node> = vec![];
        for l in letters.iter().take(k) {
            let g = match rng.below(4) {
                0 => Repeat(b(Node::group(Node::lit(l))), 0, Some(1), Mode::Greedy),
                1 => Node::group(Alt(vec![Node::lit(l), Node::lit("z")])),
                _ => Node::group(Node::lit(l)),
            };
            body.push(g);
        }
        let asserts = if fancy { vec![Assert(A::NotWordB), Assert(A::WordB), Look(b(Empty), false, false), Look(b(Node::lit("z")), false, true)] } else { vec![Assert(A::NotWordB), Assert(A::WordB)] };
        let at = rng.below(body.len() as u64 + 1) as usize;
        body.insert(at, asserts[rng.below(asserts.len() as u64) as usize].clone());
        let (lo, hi) = [(2u32, Some(2u32)), (1, None), (2, Some(3)), (1, Some(2))][rng.below(4) as usize];
        let lp = Repeat(b(Concat(body)), lo, hi, if rng.chance(1, 4) { Mode::Lazy } else { Mode::Greedy });
        let mut tails = vec![Node::lit("x"), Node::lit("y"), Assert(A::WordB)];
        if fancy {
            tails.push(Backref(1 + rng.below(k as u64) as usize));
            tails.push(Look(b(Node::lit("x")), false, false));
        }
        let tail = tails[rng.below(tails.len() as u64) as usize].clone();
        let fallback = [Repeat(b(Node::class("\\w")), 1, None, Mode::Greedy), Repeat(b(Any(false)), 1, None, Mode::Lazy), Node::lit("a")][rng.below(3) as usize].clone();
        let p = Alt(vec![Concat(vec![lp, tail]), fallback]);
        let unit: String = letters.iter().take(k).copied().collect();
        let mut texts = vec![];
        for reps in 1..=3usize {
            for end in ["x", "y", "", " x", "a"] {
                texts.push(format!("{}{}", unit.repeat(reps), end));
            }
        }
        texts.push(format!("{}{}x", unit, &unit[..unit.len() - 1]));
        texts.push(format!("{}z{}y {}{}x", &unit[..1], &unit[2..], unit, unit));
        texts.push(format!("{u}{u}y {u}{u}x", u = unit));
        out.push((p, texts));
    }
    out
}

/// Adjacent literals / quantified literals that differ only in case or in their case mode, in
/// front of a VM-compiled tail (whether a repeat may give characters back to its neighbour
/// depends on both the letters and the flags in force).
pub fn fold_adjacent_family() -> Vec<Node> {
    let ci = |s: &str| Flags("i".into(), "".into(), Some(b(Node::lit(s))));
    let cs = |s: &str| Flags("".into(), "i".into(), Some(b(Node::lit(s))));
    let lits: Vec<Node> = vec![Node::lit("k"), Node::lit("K"), ci("k"), ci("K"), cs("k"), Node::lit("s"), ci("s"), Node::lit("\u{17f}")];
    let quants = [(1u32, None, Mode::Greedy), (0, None, Mode::Greedy), (0, Some(1), Mode::Greedy), (1, Some(2), Mode::Greedy), (1, None, Mode::Lazy)];
    let tails: Vec<Node> = vec![Assert(A::WordB), Look(b(Node::lit("-")), false, false), Look(b(Empty), false, false), Concat(vec![Node::group(Any(false)), Repeat(b(Backref(1)), 0, Some(1), Mode::Greedy)])];
    let mut out = vec![];
    for x in &lits {
        for y in &lits {
            for (lo, hi, m) in quants {
                for (ti, t) in tails.iter().enumerate() {
                    // tail behind, and (for the assertion) also in front
                    out.push(Concat(vec![Repeat(b(x.clone()), lo, hi, m), y.clone(), t.clone()]));
                    if ti == 0 {
                        out.push(Concat(vec![t.clone(), Repeat(b(x.clone()), lo, hi, m), y.clone()]));
                        out.push(Concat(vec![x.clone(), Repeat(b(y.clone()), lo, hi, m), x.clone(), t.clone()]));
                    }
                }
            }
        }
    }
    out
}

/// A greedy loop over one literal behind a prefix of literals, in front of a continuation that
/// may need a character back, with a word boundary somewhere (so the VM compiles the
/// concatenation piece by piece). Common syntax only.
pub fn literal_loop_family() -> Vec<Node> {
    let lits = ["a", "b", "-"];
    let quants = [(0u32, None), (1, None), (2, None), (1, Some(3))];
    let mut out = vec![];
    for p1 in lits {
        for p2 in lits {
            for l in lits {
                for (lo, hi) in quants {
                    let lp = || Repeat(b(Node::lit(l)), lo, hi, Mode::Greedy);
                    let pre = || vec![Node::lit(p1), Node::lit(p2)];
                    for cont in [vec![Assert(A::WordB)], vec![Node::lit(l), Assert(A::WordB)], vec![Node::class("\\w"), Assert(A::WordB)], vec![Any(false), Assert(A::NotWordB)], vec![Node::lit(p1), Assert(A::WordB)]] {
                        let mut v = pre();
                        v.push(lp());
                        v.extend(cont.clone());
                        out.push(Concat(v));
                        // boundary in front, and the prefix inside a group
                        let mut w = vec![Assert(A::WordB), Node::lit(p1), Node::group(Node::lit(p2)), lp()];
                        w.extend(cont);
                        out.push(Concat(w));
                    }
                }
            }
        }
    }
    out
}

/// Alternations whose branches share a leading element that can end in more than one place
/// (`a+b|a+c`): regex-syntax rewrites them to `a+(?:b|c)` when they are delegated, which is not
/// the same thing under leftmost-first semantics (finding FY). Bare, grouped, followed by a
/// literal, and with a word boundary in a branch (so that the VM compiles the alternation itself).
pub fn common_prefix_alt_family() -> Vec<Node> {
    let prefixes = vec![
        Repeat(b(Node::lit("a")), 1, None, Mode::Greedy),
        Repeat(b(Node::lit("a")), 0, None, Mode::Greedy),
        Repeat(b(Node::class("[ab]")), 1, None, Mode::Greedy),
        Repeat(b(Node::class("[ab]")), 0, None, Mode::Lazy),
        Repeat(b(Any(false)), 1, None, Mode::Greedy),
        Repeat(b(Node::lit("a")), 1, Some(2), Mode::Greedy),
        Repeat(b(Node::class("\\w")), 1, None, Mode::Greedy),
        NonCap(b(Alt(vec![Node::lit("a"), Node::lit("ab")]))),
        // controls outside the class: fixed-size prefixes
        Node::lit("a"),
        Repeat(b(Node::class("[ab]")), 2, Some(2), Mode::Greedy),
    ];
    let tails: Vec<(Vec<Node>, Vec<Node>)> = vec![
        (vec![Node::lit("b")], vec![Node::lit("a")]),
        (vec![Node::lit("b")], vec![Assert(A::EndText)]),
        (vec![Node::lit("b")], vec![Assert(A::WordB)]),
        (vec![Node::lit("b"), Assert(A::NotWordB)], vec![Assert(A::WordB)]),
        (vec![Node::lit("b")], vec![Node::lit("b"), Node::lit("a")]),
        (vec![Node::group(Node::lit("b"))], vec![Node::group(Node::lit("a"))]),
    ];
    let mut out = vec![];
    for p in &prefixes {
        for (x, y) in &tails {
            let br = |t: &Vec<Node>| {
                let mut v = vec![p.clone()];
                v.extend(t.iter().cloned());
                Concat(v)
            };
            let alt = Alt(vec![br(x), br(y)]);
            out.push(alt.clone());
            out.push(Concat(vec![NonCap(b(alt.clone())), Node::lit("-")]));
            out.push(Concat(vec![Node::group(alt.clone()), Repeat(b(Backref(1)), 0, Some(1), Mode::Greedy)]));
            out.push(Concat(vec![Look(b(Empty), false, false), NonCap(b(alt.clone()))]));
            out.push(Alt(vec![br(x), br(y), br(&vec![Node::lit("-")])]));
        }
    }
    out
}

/// All ways of putting ONE run of two or more adjacent elements of one concatenation (at any
/// depth) into a non-capturing group: `abc` -> `(?:ab)c`, `a(?:bc)`. The group has no flags,
/// so nothing may change. (A KeepOut or a conditional reference is never moved into a group:
/// the run keeps their position relative to the enclosing groups.)
pub fn noncap_wraps(n: &Node, limit: usize) -> Vec<Node> {
    let mut out = vec![];
    fn go(n: &Node, rebuild: &dyn Fn(Node) -> Node, out: &mut Vec<Node>, limit: usize) {
        if out.len() >= limit {
            return;
        }
        if let Concat(v) = n {
            for i in 0..v.len() {
                for j in i + 1..v.len() {
                    if j - i + 1 == v.len() && v.len() == 2 {
                        // wrapping the whole two-element concatenation is still a change of nesting
                    }
                    let mut w: Vec<Node> = v[..i].to_vec();
                    w.push(NonCap(b(Concat(v[i..=j].to_vec()))));
                    w.extend(v[j + 1..].iter().cloned());
                    let wrapped = if w.len() == 1 { w.pop().unwrap() } else { Concat(w) };
                    out.push(rebuild(wrapped));
                    if out.len() >= limit {
                        return;
                    }
                }
            }
        }
        let kids = n.children();
        for k in 0..kids.len() {
            let rb = |c: Node| rebuild(replace_child_raw(n, k, c));
            go(kids[k], &rb, out, limit);
        }
    }
    go(n, &|x| x, &mut out, limit);
    out
}

/// `replace_child` without the flattening of nested concatenations.
fn replace_child_raw(n: &Node, i: usize, v: Node) -> Node {
    let mut n = n.clone();
    match &mut n {
        Concat(w) | Alt(w) => w[i] = v,
        Group(_, c) | NonCap(c) | Atomic(c) | Repeat(c, ..) | Look(c, ..) | Flags(_, _, Some(c)) => **c = v,
        CondGroup(_, y, no) => {
            if i == 0 {
                **y = v
            } else {
                **no = v
            }
        }
        CondExpr(c, y, no) => match i {
            0 => **c = v,
            1 => **y = v,
            _ => **no = v,
        },
        _ => unreachable!(),
    }
    n
}
