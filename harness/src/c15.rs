//! C15 — conditionals choose their branch as documented.
use crate::ast::Node;
use crate::common::*;
use crate::diff::{self, Compare, DiffCfg};
use crate::spaces;
use serde_json::json;

fn exclude(p: &Node) -> Option<&'static str> {
    if !p.has_cond() {
        return Some("no-conditional");
    }
    diff::default_exclude(p)
}

pub fn run(ctx: &Ctx) -> Outcome {
    let sp = spaces::c01_space(ctx.tier, ctx.seed, true, 4, 4, 2, 3, 80_000, 250_000);
    let texts = spaces::texts_c01(ctx.tier.pick(3, 4));
    let cfg = DiffCfg { prop: "C15", compare: Compare::All, entry_points: false, ref_budget: crate::refm::BUDGET, step_cap: Some(2_000_000), exclude: &exclude, static_known: &diff::no_static_known, style: None, f1_compat: false };
    let mut acc = diff::run(ctx, &cfg, &sp.patterns, &texts);
    // the named spellings `(?(<name>)yes|no)` / `(?('name')..)` with `\k<name>` references: the
    // same trees printed with every group named, smaller trees only
    let named_a = crate::ast::Style { group: crate::ast::GroupStyle::Angle, backref: crate::ast::RefStyle::KAngle, ..Default::default() };
    let named_q = crate::ast::Style { group: crate::ast::GroupStyle::PName, backref: crate::ast::RefStyle::KQuote, ..Default::default() };
    let small: Vec<Node> = sp.patterns.iter().filter(|p| p.size() <= ctx.tier.pick(4, 5) && p.n_groups() > 0).cloned().collect();
    for st in [&named_a, &named_q] {
        let cfg_n = DiffCfg { style: Some(st), ..DiffCfg { prop: "C15", compare: Compare::All, entry_points: false, ref_budget: crate::refm::BUDGET, step_cap: Some(2_000_000), exclude: &exclude, static_known: &diff::no_static_known, style: None, f1_compat: false } };
        let a2 = diff::run(ctx, &cfg_n, &small, &texts);
        acc.add("named-spelling-evaluations", a2.evals);
        acc.merge(a2);
    }
    diff::run_witnesses(ctx, "C15", "FJ", &mut acc);
    let mut out = Outcome::new(acc);
    out.distinct_nontrivial = out.acc.distinct;
    out.rule = format!("patterns containing a conditional from: {}; all texts over {{a,b,c,é,\\n,-}} up to length {}, every offset, plus the trees of <= 4 (thorough 5) nodes spelled with named groups, `(?(<name>)..)` / `(?('name')..)` conditions and `\\k<name>` references; span and all groups compared with the reference; EndAtomic/BeginAtomic pairing watched on the auxiliary stack (a disagreement is attributed to finding FJ only in a run where an EndAtomic consumed a foreign entry). Non-trivial: a conditional pattern that matched one case and failed another.", sp.describe, ctx.tier.pick(3, 4));
    out.assumptions = vec!["reference rule 6: (?(N)..) tests whether group N has a span; (?(cond)yes|no) commits to cond".into()];
    out.extra = json!({"runs_with_aux_mismatch": out.acc.get("runs-with-aux-mismatch")});
    let ok = out.acc.hook.cuts > 0 || !HOOKS;
    out.require(ok, "no atomic commit observed");
    out
}
