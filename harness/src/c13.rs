//! C13 — look-behind needs a fixed length and then inspects exactly that text; static size facts
//! are sound.
use crate::ast::{Mode, Node, A};
use crate::common::*;
use crate::diff::{self, Compare, DiffCfg};
#[allow(unused_imports)]
use crate::refm::{self, Obs, R};
use crate::spaces;
use fancy_regex::{Assertion, Expr, LookAround};
use serde_json::json;

struct Row {
    kind: &'static str,
    min_size: usize,
    const_size: bool,
    /// for a look-behind node: tag ids of the top-level alternatives of its body
    lb_alts: Vec<usize>,
}

#[cfg(feature = "hooks")]
type Facts = fancy_regex::internal::verif::VerifFacts;

#[cfg(feature = "hooks")]
fn build(e: &Expr, f: &Facts, rows: &mut Vec<Row>) -> Option<R> {
    let id = rows.len();
    rows.push(Row { kind: f.kind, min_size: f.min_size, const_size: f.const_size, lb_alts: vec![] });
    let kids = |n: usize| -> Option<()> {
        if f.children.len() == n {
            Some(())
        } else {
            None
        }
    };
    let inner = match e {
        Expr::Empty => R::Empty,
        Expr::Any { newline } => R::Any(*newline),
        Expr::Assertion(a) => R::Assert(match a {
            Assertion::StartText => A::StartText,
            Assertion::EndText => A::EndText,
            Assertion::StartLine { crlf: false } => A::StartLine,
            Assertion::EndLine { crlf: false } => A::EndLine,
            Assertion::LeftWordBoundary => A::WordStart,
            Assertion::RightWordBoundary => A::WordEnd,
            Assertion::WordBoundary => A::WordB,
            Assertion::NotWordBoundary => A::NotWordB,
            _ => return None,
        }),
        Expr::Literal { val, casei: false } => R::Lit(val.clone()),
        Expr::Literal { .. } => return None,
        Expr::Concat(v) => {
            kids(v.len())?;
            R::Concat(v.iter().zip(&f.children).map(|(c, fc)| build(c, fc, rows)).collect::<Option<Vec<_>>>()?)
        }
        Expr::Alt(v) => {
            kids(v.len())?;
            R::Alt(v.iter().zip(&f.children).map(|(c, fc)| build(c, fc, rows)).collect::<Option<Vec<_>>>()?)
        }
        Expr::Group(c) => {
            kids(1)?;
            R::Group(f.start_group, Box::new(build(c, &f.children[0], rows)?))
        }
        Expr::LookAround(c, la) => {
            kids(1)?;
            if let (Expr::Delegate { inner, .. }, LookAround::LookAhead) = (&**c, la) {
                if inner == "\n*$" {
                    // the `\Z` primitive: not a user sub-expression
                    return Some(R::Tagged(id, Box::new(R::Assert(A::EndBeforeNl))));
                }
            }
            let (behind, neg) = match la {
                LookAround::LookAhead => (false, false),
                LookAround::LookAheadNeg => (false, true),
                LookAround::LookBehind => (true, false),
                LookAround::LookBehindNeg => (true, true),
            };
            let first_child_id = rows.len();
            let body = build(c, &f.children[0], rows)?;
            if behind {
                // ids of the top-level alternatives: children of the body if it is an Alt
                let alts = match (&**c, &body) {
                    (Expr::Alt(_), R::Tagged(_, inner)) => match &**inner {
                        R::Alt(v) => v.iter().filter_map(|a| if let R::Tagged(i, _) = a { Some(*i) } else { None }).collect(),
                        _ => vec![first_child_id],
                    },
                    _ => vec![first_child_id],
                };
                rows[id].lb_alts = alts;
            }
            R::Look(Box::new(body), behind, neg)
        }
        Expr::Repeat { child, lo, hi, greedy } => {
            kids(1)?;
            let hi = if *hi == usize::MAX { None } else { Some(u32::try_from(*hi).ok()?) };
            R::Repeat(Box::new(build(child, &f.children[0], rows)?), u32::try_from(*lo).ok()?, hi, if *greedy { Mode::Greedy } else { Mode::Lazy })
        }
        Expr::Delegate { inner, size: 1, casei: false } if refm::class_supported(inner) => R::Class(inner.clone()),
        Expr::Delegate { .. } => return None,
        Expr::Backref(g) => R::Backref(*g),
        Expr::AtomicGroup(c) => {
            kids(1)?;
            R::Atomic(Box::new(build(c, &f.children[0], rows)?))
        }
        Expr::KeepOut => R::KeepOut,
        Expr::ContinueFromPreviousMatchEnd => R::ContG,
        Expr::BackrefExistsCondition(g) => R::GroupExists(*g),
        Expr::Conditional { condition, true_branch, false_branch } => {
            kids(3)?;
            let c = build(condition, &f.children[0], rows)?;
            let y = build(true_branch, &f.children[1], rows)?;
            let n = build(false_branch, &f.children[2], rows)?;
            R::CondExpr(Box::new(c), Box::new(y), Box::new(n))
        }
        Expr::SubroutineCall(_) => return None,
    };
    Some(R::Tagged(id, Box::new(inner)))
}

#[cfg(feature = "hooks")]
fn facts_pass(ctx: &Ctx, patterns: &[Node], texts: &[String]) -> Acc {
    use fancy_regex::internal::verif::verif_facts;
    par_run(patterns, false, None, |_, p, acc| {
        if !p.refs_exist() {
            return;
        }
        let s = p.print();
        let parsed = guard(|| Expr::parse_tree(&s));
        let Got::Val(tree) = parsed else {
            if parsed.is_panic() {
                acc.violate(Violation::new("C13", "parse-panic", &s, "", 0, "Expr::parse_tree", "Ok or Err".into(), parsed.show()));
            }
            return;
        };
        let facts = match guard(|| {
            let t2 = Expr::parse_tree(&s)?;
            verif_facts(&fancy_regex::wrap_tree(t2))
        }) {
            Got::Val(f) => f,
            Got::Err(_) => {
                acc.count("analysis-err");
                return;
            }
            o => {
                acc.violate(Violation::new("C13", "analysis-panic", &s, "", 0, "analyze", "Ok or Err".into(), o.show()));
                return;
            }
        };
        // wrapped tree = Concat[ (?s:.)*? , Group(raw) ]
        let Some(raw) = facts.children.get(1).and_then(|g| g.children.first()) else {
            acc.count("facts-shape-unexpected");
            acc.inconclusive += 1;
            return;
        };
        let mut rows = vec![];
        let Some(r) = build(&tree.expr, raw, &mut rows) else {
            acc.count("not-modelled");
            return;
        };
        let ngroups = facts.end_group;
        let compiled = compile(&s);
        let compiles = matches!(compiled, Got::Val(_));
        let mut obs = Obs::new();
        let mut complete = true;
        for t in texts {
            acc.evals += 1;
            complete &= refm::observe(&r, ngroups, t, 30_000, &mut obs);
        }
        if !complete {
            acc.count("observation-budget-hit (lengths seen so far are still valid witnesses)");
        }
        acc.add("nodes-observed", obs.len() as u64);
        for (id, lens) in &obs {
            let row = &rows[*id];
            let min = *lens.iter().next().unwrap();
            if lens.len() >= 2 {
                acc.distinct += 1;
            }
            if min < row.min_size {
                let mut v = Violation::new("C13", "min-size", &s, "", 0, "analysis facts", format!("every match of node #{} ({}) has >= min_size = {} characters", id, row.kind, row.min_size), format!("observed match lengths {:?}", lens));
                v.note = "lengths enumerated by the reference matcher over all texts of the space".into();
                acc.violate(v);
            }
            if row.const_size && (lens.len() > 1 || min != row.min_size) {
                let mut v = Violation::new("C13", "const-size", &s, "", 0, "analysis facts", format!("node #{} ({}) judged constant-size with {} characters", id, row.kind, row.min_size), format!("observed match lengths {:?}", lens));
                v.note = "lengths enumerated by the reference matcher over all texts of the space".into();
                acc.violate(v);
            }
        }
        // a look-behind that compiled: each top-level alternative has one observed length
        if compiles {
            for (id, row) in rows.iter().enumerate() {
                for alt in &row.lb_alts {
                    acc.count("lookbehind-alternatives-checked");
                    if let Some(lens) = obs.get(alt) {
                        if lens.len() > 1 {
                            acc.violate(Violation::new("C13", "lookbehind-accepted", &s, "", 0, "Regex::new", format!("LookBehindNotConst: alternative #{} of look-behind #{} matches strings of lengths {:?}", alt, id, lens), "compiled".into()));
                        }
                    }
                }
            }
        }
        // a look-behind with an alternative of two observed lengths: compilation fails, and it
        // fails with the look-behind-not-constant error (not a panic, not another error)
        if !compiles {
            let variable = rows.iter().any(|row| row.lb_alts.iter().any(|alt| obs.get(alt).map_or(false, |l| l.len() > 1)));
            if variable {
                acc.count("variable-lookbehind-rejections-checked");
                match &compiled {
                    Got::Err(e) if e.contains("LookBehindNotConst") => {}
                    other => acc.violate(Violation::new("C13", "lookbehind-error-kind", &s, "", 0, "Regex::new", "Err(CompileError(LookBehindNotConst)): a look-behind alternative shows two lengths".into(), other.show())),
                }
            } else if complete {
                // the converse is not claimed by the property: recorded, never judged
                acc.count(if matches!(&compiled, Got::Err(e) if e.contains("LookBehindNotConst")) { "rejected-as-not-constant-although-one-length-observed (recorded only)" } else { "rejected-for-another-reason" });
            }
        }
        acc.sample(1, || json!({"pattern": s, "nodes": rows.len(), "observed": obs.iter().map(|(k, v)| format!("#{} {} min={} const={} lens={:?}", k, rows[*k].kind, rows[*k].min_size, rows[*k].const_size, v)).collect::<Vec<_>>()}));
        let _ = ctx;
    })
}

#[cfg(not(feature = "hooks"))]
fn facts_pass(_ctx: &Ctx, _patterns: &[Node], _texts: &[String]) -> Acc {
    let _ = (Row { kind: "", min_size: 0, const_size: false, lb_alts: vec![] }, None::<Expr>, None::<LookAround>, None::<Assertion>, Mode::Greedy);
    Acc::default()
}

fn lb_exclude(p: &Node) -> Option<&'static str> {
    if !p.has_lookbehind() {
        return Some("no-look-behind");
    }
    diff::default_exclude(p)
}

pub fn run(ctx: &Ctx) -> Outcome {
    // 1 + 2: facts monitor over the unrestricted space
    let sp = spaces::unrestricted(ctx.tier, ctx.seed ^ 13, 4, 4, 60_000, 150_000);
    let texts = spaces::texts_mb(ctx.tier.pick(3, 3));
    // conditionals inside look-behinds: the only place where a conditional's const_size is read
    let mut fact_patterns = sp.patterns.clone();
    {
        use crate::ast::Node::*;
        let bx = |n: Node| Box::new(n);
        let mut g = crate::gen::Gen::new(false);
        for x in g.upto(2) {
            for (y, n) in [(Node::lit("a"), Empty), (Node::lit("aé"), Node::lit("a")), (Node::lit("a"), Node::lit("éa")), (Empty, Node::lit("a")), (Node::lit("a"), Node::lit("b"))] {
                if x != Empty && !matches!(x, Backref(_)) {
                    fact_patterns.push(Concat(vec![Look(bx(CondExpr(bx(x.clone()), bx(y.clone()), bx(n.clone()))), true, false), Node::lit("b")]));
                    fact_patterns.push(Look(bx(Concat(vec![Any(false), CondExpr(bx(x.clone()), bx(y.clone()), bx(n.clone()))])), true, true));
                }
                fact_patterns.push(Concat(vec![Repeat(bx(Node::group(x.clone())), 0, Some(1), Mode::Greedy), Look(bx(CondGroup(1, bx(y.clone()), bx(n.clone()))), true, false)]));
            }
        }
    }
    let mut acc = facts_pass(ctx, &fact_patterns, &texts);
    // 3: behaviour of accepted look-behinds on multi-byte texts, offsets near 0
    let sp3 = spaces::c01_space(ctx.tier, ctx.seed ^ 13, false, 4, 5, 2, 3, 10_000, 60_000);
    let mut lb: Vec<Node> = sp3.patterns.into_iter().filter(|p| p.has_lookbehind()).collect();
    // the look-behind contexts with multi-byte fillers
    use crate::ast::Node::*;
    let bx = |n: Node| Box::new(n);
    for body in [Node::lit("é"), Node::lit("😀"), Node::lit("a€"), Concat(vec![Any(false), Node::lit("é")]), Alt(vec![Node::lit("é"), Node::lit("aa")]), Alt(vec![Node::lit("😀"), Node::lit("a")]), Repeat(bx(Any(true)), 2, Some(2), Mode::Greedy), Concat(vec![Assert(A::StartText), Any(false)])] {
        for neg in [false, true] {
            for tail in [Node::Empty, Node::lit("a"), Any(false), Assert(A::EndText)] {
                lb.push(Concat(vec![Look(bx(body.clone()), true, neg), tail.clone()]));
                lb.push(Concat(vec![Any(false), Look(bx(body.clone()), true, neg), tail.clone()]));
                lb.push(Concat(vec![Node::group(Any(false)), Look(bx(Concat(vec![body.clone(), Any(false)])), true, neg), tail]));
            }
        }
    }
    let texts3 = spaces::texts_mb(ctx.tier.pick(3, 4));
    let cfg = DiffCfg { prop: "C13", compare: Compare::All, entry_points: false, ref_budget: refm::BUDGET, step_cap: Some(2_000_000), exclude: &lb_exclude, static_known: &diff::no_static_known, style: None, f1_compat: false };
    let n_lb = lb.len();
    let acc3 = diff::run(ctx, &cfg, &lb, &texts3);
    let mb_lb = acc3.distinct;
    acc.merge(acc3);
    let mut out = Outcome::new(acc);
    out.distinct_nontrivial = out.acc.distinct;
    out.rule = format!("(1) facts monitor: every pattern of [{}] that analyses; the crate's own parse tree is translated node for node into the reference AST and the reference matcher enumerates, over all {} texts of 1-4 byte characters up to length {}, the character length of every completed sub-match on every explored path; violation = a length below min_size, or a length different from min_size / two lengths for a node judged const_size. (2) for every compiled pattern each top-level alternative of a look-behind body must show one length only; a pattern that does not compile and has a look-behind alternative with two observed lengths must fail with CompileError(LookBehindNotConst). (3) C01-style differential on {} look-behind patterns (C01 space + multi-byte look-behind contexts) x {} multi-byte texts x every offset (the reference look-behind is length-agnostic). Non-trivial: nodes with >= 2 distinct observed lengths (they can refute a const_size claim) plus look-behind patterns that matched and failed ({}).", sp.describe, texts.len(), ctx.tier.pick(2, 3), n_lb, texts3.len(), mb_lb);
    out.assumptions = vec!["the converse (every fixed-length body is accepted) is not claimed by the property and not checked".into(), "hook H4 (verif_facts) mirrors analyze::Info node for node".into()];
    let (nodes, lbc) = (out.acc.get("nodes-observed"), out.acc.get("lookbehind-alternatives-checked"));
    out.extra = json!({"nodes_observed": nodes, "lookbehind_alternatives_checked": lbc, "hooks": HOOKS});
    out.require(!HOOKS || nodes > 0, "facts monitor observed no node");
    out.require(!HOOKS || lbc > 0, "no accepted look-behind was checked");
    out.require(!HOOKS || out.acc.get("variable-lookbehind-rejections-checked") > 0, "no rejected variable-length look-behind was observed");
    out
}
