//! frmon: runtime monitors for fancy-regex (see /verif/DESIGN.md).
pub mod ast;
pub mod common;
pub mod diff;
pub mod gen;
pub mod known;
pub mod refm;
pub mod rng;
pub mod spaces;
pub mod c01;
pub mod c02;
pub mod c15;
