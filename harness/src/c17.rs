//! C17 — escape(text) is a pattern that matches exactly text.
use crate::common::*;
use crate::rng::Rng;
use fancy_regex::Regex;
use serde_json::json;
use std::borrow::Cow;

const SYMS: [&str; 42] = [
    "\\", ".", "+", "*", "?", "(", ")", "|", "[", "]", "{", "}", "^", "$", "#", "-", "&", "~", "!", "\"", "%", "'", ",", "/", ":", ";", "<", "=", ">", "@", "_", "`", "a", "1", " ", "\n", "é", "€",
    "😀", "b", "ß", "ﬁ",
];
/// what needs escaping (regex meta-characters plus `#`), stated independently of the crate
const META: &str = "\\.+*?()|[]{}^$#";

fn find_spans(re: &Regex, t: &str) -> Result<Option<Vec<Option<(usize, usize)>>>, String> {
    match re.captures(t) {
        Ok(c) => Ok(c.map(|c| caps_of(&c))),
        Err(e) => Err(err_kind(&e)),
    }
}

struct Host {
    name: &'static str,
    build: fn(&str) -> String,
    /// expected captures on text `t` for literal `s` when the search starts at byte `from`
    expect: fn(&str, &str, usize) -> Option<Vec<Option<(usize, usize)>>>,
    applies: fn(&str) -> bool,
}

fn occ(t: &str, s: &str, from: usize) -> Option<usize> {
    t[from..].find(s).map(|p| p + from)
}

fn hosts() -> Vec<Host> {
    vec![
        Host { name: "E", build: |e| e.to_string(), expect: |t, s, from| occ(t, s, from).map(|p| vec![Some((p, p + s.len()))]), applies: |_| true },
        Host { name: "(?:E)", build: |e| format!("(?:{})", e), expect: |t, s, from| occ(t, s, from).map(|p| vec![Some((p, p + s.len()))]), applies: |_| true },
        Host {
            name: "(E)\\1",
            build: |e| format!("({})\\1", e),
            expect: |t, s, from| {
                let ss = format!("{}{}", s, s);
                occ(t, &ss, from).map(|p| vec![Some((p, p + 2 * s.len())), Some((p, p + s.len()))])
            },
            applies: |_| true,
        },
        Host { name: "(?=E)E", build: |e| format!("(?={}){}", e, e), expect: |t, s, from| occ(t, s, from).map(|p| vec![Some((p, p + s.len()))]), applies: |_| true },
        Host {
            name: "[ab]*E",
            build: |e| format!("[ab]*{}", e),
            expect: |t, s, from| {
                // leftmost start, then the longest run of a/b that still lets s follow
                for p in (from..=t.len()).filter(|&i| t.is_char_boundary(i)) {
                    let run = t[p..].bytes().take_while(|b| *b == b'a' || *b == b'b').count();
                    for k in (0..=run).rev() {
                        if t[p + k..].starts_with(s) {
                            return Some(vec![Some((p, p + k + s.len()))]);
                        }
                    }
                }
                None
            },
            applies: |_| true,
        },
        Host {
            name: "(?<=E)",
            build: |e| format!("(?<={})", e),
            // the look-behind may see text in front of the search start
            expect: |t, s, from| (from..=t.len()).find(|&q| t.is_char_boundary(q) && t[..q].ends_with(s)).map(|q| vec![Some((q, q))]),
            applies: |_| true,
        },
        Host {
            name: "(?>E)c?",
            build: |e| format!("(?>{})c?", e),
            expect: |t, s, from| occ(t, s, from).map(|p| vec![Some((p, p + s.len() + if t[p + s.len()..].starts_with('c') { 1 } else { 0 }))]),
            applies: |_| true,
        },
        Host {
            name: "(?:E){2}",
            build: |e| format!("(?:{}){{2}}", e),
            expect: |t, s, from| {
                let ss = format!("{}{}", s, s);
                occ(t, &ss, from).map(|p| vec![Some((p, p + 2 * s.len()))])
            },
            // an empty group is not repeatable (the crate's rule, nothing to do with escape)
            applies: |s| !s.is_empty(),
        },
        Host {
            name: "(?!E)(?s:.)",
            build: |e| format!("(?!{})(?s:.)", e),
            expect: |t, s, from| {
                for (p, c) in t.char_indices().filter(|(p, _)| *p >= from) {
                    if !t[p..].starts_with(s) {
                        return Some(vec![Some((p, p + c.len_utf8()))]);
                    }
                }
                None
            },
            applies: |_| true,
        },
        // fancy hosts in which E is delegated together with a non-literal neighbour
        Host {
            name: "(?<!-)[ab]E",
            build: |e| format!("(?<!-)[ab]{}", e),
            expect: |t, s, from| {
                for (p, c) in t.char_indices().filter(|(p, _)| *p >= from) {
                    if (c == 'a' || c == 'b') && t[p + 1..].starts_with(s) && !t[..p].ends_with('-') {
                        return Some(vec![Some((p, p + 1 + s.len()))]);
                    }
                }
                None
            },
            applies: |_| true,
        },
        Host {
            name: "E\\d?(?=)",
            build: |e| format!("{}\\d?(?=)", e),
            expect: |t, s, from| occ(t, s, from).map(|p| vec![Some((p, p + s.len() + if t[p + s.len()..].starts_with(|c: char| c.is_ascii_digit()) { 1 } else { 0 }))]),
            applies: |_| true,
        },

        // E at the start of a delegated run that ends in a constant-size non-literal
        Host {
            name: "(?<!x)E[a7x\\-]",
            build: |e| format!("(?<!x){}[a7x\\-]", e),
            expect: |t, s, from| {
                for (p, _) in t.char_indices().chain(std::iter::once((t.len(), ' '))).filter(|(p, _)| *p >= from) {
                    if t[p..].starts_with(s) && !t[..p].ends_with('x') {
                        if let Some(c) = t[p + s.len()..].chars().next() {
                            if matches!(c, 'a' | '7' | 'x' | '-') {
                                return Some(vec![Some((p, p + s.len() + 1))]);
                            }
                        }
                    }
                }
                None
            },
            applies: |s| !s.is_empty(),
        },
        Host {
            name: "(?=)E(?s:.)",
            build: |e| format!("(?=){}(?s:.)", e),
            expect: |t, s, from| {
                for (p, _) in t.char_indices().filter(|(p, _)| *p >= from) {
                    if t[p..].starts_with(s) {
                        if let Some(c) = t[p + s.len()..].chars().next() {
                            return Some(vec![Some((p, p + s.len() + c.len_utf8()))]);
                        }
                    }
                }
                None
            },
            applies: |s| !s.is_empty(),
        },
        // key / value: the escaped string behind a look-behind for itself
        Host {
            name: "(?<=E)E",
            build: |e| format!("(?<={}){}", e, e),
            expect: |t, s, from| (from..=t.len()).find(|&q| t.is_char_boundary(q) && t[..q].ends_with(s) && t[q..].starts_with(s)).map(|q| vec![Some((q, q + s.len()))]),
            applies: |_| true,
        },
        Host {
            name: "(?<=E)(?s:.)",
            build: |e| format!("(?<={})(?s:.)", e),
            expect: |t, s, from| t.char_indices().find(|(q, _)| *q >= from && t[..*q].ends_with(s)).map(|(q, c)| vec![Some((q, q + c.len_utf8()))]),
            applies: |_| true,
        },
        // E between VM-compiled neighbours, in front of loops whose body can match the empty
        // string (the instructions with a separate exit target)
        Host {
            name: "(?=(?s:.)?)E(?:(?=c)c|)*(?!!)",
            build: |e| format!("(?=(?s:.)?){}(?:(?=c)c|)*(?!!)", e),
            expect: |t, s, from| {
                let mut p = from;
                while let Some(q) = occ(t, s, p) {
                    let after = q + s.len();
                    let run = t[after..].bytes().take_while(|b| *b == b'c').count();
                    for k in (0..=run).rev() {
                        if !t[after + k..].starts_with('!') {
                            return Some(vec![Some((q, after + k))]);
                        }
                    }
                    p = q + t[q..].chars().next().map_or(1, |c| c.len_utf8());
                    if p > t.len() {
                        break;
                    }
                }
                None
            },
            applies: |_| true,
        },
        Host {
            name: "(?!!)(E)(?:(?=c)c|)*?(?![c])\\1?",
            build: |e| format!("(?!!)({})(?:(?=c)c|)*?(?![c])\\1?", e),
            expect: |t, s, from| {
                let mut p = from;
                while let Some(q) = occ(t, s, p) {
                    if !t[q..].starts_with('!') {
                        let after = q + s.len();
                        let run = t[after..].bytes().take_while(|b| *b == b'c').count();
                        let mut end = after + run;
                        if t[end..].starts_with(s) {
                            end += s.len();
                        }
                        return Some(vec![Some((q, end)), Some((q, after))]);
                    }
                    p = q + t[q..].chars().next().map_or(1, |c| c.len_utf8());
                    if p > t.len() {
                        break;
                    }
                }
                None
            },
            // an s that starts with `c` would make "the run of c after s" ambiguous
            applies: |s| !s.contains('c') && !s.contains('!'),
        },
        // an atomic group inside a look-behind (the look-behind distance comes from the analysis)
        Host {
            name: "(?<=(?>E))E",
            build: |e| format!("(?<=(?>{})){}", e, e),
            expect: |t, s, from| (from..=t.len()).find(|&q| t.is_char_boundary(q) && t[..q].ends_with(s) && t[q..].starts_with(s)).map(|q| vec![Some((q, q + s.len()))]),
            applies: |_| true,
        },
        // line anchors executed by the VM: a line starts at 0 and after \n only (no CRLF mode)
        Host {
            name: "(?m:(?!!)^E(?!!))",
            build: |e| format!("(?m:(?!!)^{}(?!!))", e),
            expect: |t, s, from| {
                (from..=t.len())
                    .find(|&p| t.is_char_boundary(p) && (p == 0 || t[..p].ends_with('\n')) && t[p..].starts_with(s) && !t[p..].starts_with('!') && !t[p + s.len()..].starts_with('!'))
                    .map(|p| vec![Some((p, p + s.len()))])
            },
            applies: |_| true,
        },
        Host {
            name: "(?m:(?=)E$(?=))",
            build: |e| format!("(?m:(?=){}$(?=))", e),
            expect: |t, s, from| {
                let mut p = from;
                while let Some(q) = occ(t, s, p) {
                    let after = q + s.len();
                    if after == t.len() || t[after..].starts_with('\n') {
                        return Some(vec![Some((q, after))]);
                    }
                    p = q + t[q..].chars().next().map_or(1, |c| c.len_utf8());
                    if p > t.len() {
                        break;
                    }
                }
                None
            },
            applies: |_| true,
        },
        // E as the last element of an atomic body behind a hard element and a variable piece that
        // may have to give characters back to E (inside the body backtracking is allowed)
        Host {
            name: "(?>(?!!)[ab]*E)",
            build: |e| format!("(?>(?!!)[ab]*{})", e),
            expect: |t, s, from| {
                for p in (from..=t.len()).filter(|&i| t.is_char_boundary(i)) {
                    if t[p..].starts_with('!') {
                        continue;
                    }
                    let run = t[p..].bytes().take_while(|b| *b == b'a' || *b == b'b').count();
                    for k in (0..=run).rev() {
                        if t[p + k..].starts_with(s) {
                            return Some(vec![Some((p, p + k + s.len()))]);
                        }
                    }
                }
                None
            },
            applies: |_| true,
        },
        Host {
            name: "(?=(?!!)[ab]*?E)[ab]?",
            build: |e| format!("(?=(?!!)[ab]*?{})[ab]?", e),
            expect: |t, s, from| {
                for p in (from..=t.len()).filter(|&i| t.is_char_boundary(i)) {
                    if t[p..].starts_with('!') {
                        continue;
                    }
                    let run = t[p..].bytes().take_while(|b| *b == b'a' || *b == b'b').count();
                    if (0..=run).any(|k| t[p + k..].starts_with(s)) {
                        let one = if run > 0 { 1 } else { 0 };
                        return Some(vec![Some((p, p + one))]);
                    }
                }
                None
            },
            applies: |_| true,
        },
        // E as a nested group between other literals in a literal-only body (merged into one Lit)
        Host {
            name: "(?<=a(?:E)b)",
            build: |e| format!("(?<=a(?:{})b)", e),
            expect: |t, s, from| {
                let key = format!("a{}b", s);
                (from..=t.len()).find(|&q| t.is_char_boundary(q) && t[..q].ends_with(&key)).map(|q| vec![Some((q, q))])
            },
            applies: |_| true,
        },
        Host {
            name: "(?>-(?:E)x)7?",
            build: |e| format!("(?>-(?:{})x)7?", e),
            expect: |t, s, from| {
                let key = format!("-{}x", s);
                occ(t, &key, from).map(|p| vec![Some((p, p + key.len() + if t[p + key.len()..].starts_with('7') { 1 } else { 0 }))])
            },
            applies: |_| true,
        },
        // a reference to a literal-only group that sits in ONE branch of a conditional
        Host {
            name: "(?((?=!))!(E)|a)-\\1",
            build: |e| format!("(?((?=!))!({})|a)-\\1", e),
            expect: |t, s, from| {
                let key = format!("!{}-{}", s, s);
                occ(t, &key, from).map(|p| vec![Some((p, p + key.len())), Some((p + 1, p + 1 + s.len()))])
            },
            applies: |_| true,
        },
        Host { name: "(?x:E)", build: |e| format!("(?x:{})", e), expect: |t, s, from| occ(t, s, from).map(|p| vec![Some((p, p + s.len()))]), applies: |s| !s.chars().any(|c| c.is_whitespace()) },
        Host { name: "(?i:E)x?", build: |e| format!("(?i:{})x?", e), expect: |t, s, from| occ(t, s, from).map(|p| vec![Some((p, p + s.len() + if t[p + s.len()..].starts_with('x') { 1 } else { 0 }))]), applies: |s| !s.chars().any(|c| c.is_alphabetic()) },
    ]
}

fn alter(s: &str) -> String {
    // replace the last character by one that differs
    let mut cs: Vec<char> = s.chars().collect();
    if let Some(l) = cs.last_mut() {
        *l = if *l == 'z' { 'y' } else { 'z' };
    }
    cs.into_iter().collect()
}

fn check_string(s: &str, hs: &[Host], acc: &mut Acc) {
    let e = fancy_regex::escape(s);
    let needs = s.chars().any(|c| META.contains(c));
    let borrowed = matches!(e, Cow::Borrowed(_));
    if borrowed == needs {
        acc.violate(Violation::new("C17", "borrow", s, "", 0, "escape", format!("borrowed = {}", !needs), format!("borrowed = {}", borrowed)));
    }
    if !needs && e != s {
        acc.violate(Violation::new("C17", "borrow", s, "", 0, "escape", format!("{:?}", s), format!("{:?}", e)));
    }
    let mut texts: Vec<String> = vec![s.to_string(), format!("{}{}", s, s), alter(s), format!("{}{}", alter(s), s), format!("!{}-{}", s, s), format!("a-{} !{}-{}", s, s, s)];
    for (u, v) in [("a", ""), ("é", "c"), ("\n", "x"), ("ab", "é"), ("-", "-"), ("-a", "1"), ("b", "7x"), ("x\r", "\r"), ("\r\n", "\r\n"), ("a\n", "\nb"), ("a-", "x7"), ("a", "b"), ("!", "-")] {
        texts.push(format!("{}{}{}", u, s, v));
        texts.push(format!("{}{}{}{}", u, s, s, v));
    }
    for h in hs {
        if !(h.applies)(s) {
            continue;
        }
        let pat = (h.build)(&e);
        let re = match compile(&pat) {
            Got::Val(r) => r,
            o => {
                let mut v = Violation::new("C17", "compile", &pat, "", 0, "Regex::new(host(escape(s)))", "Ok".into(), o.show());
                v.options = json!({"s": s, "host": h.name});
                acc.violate(v);
                continue;
            }
        };
        for (ti, t) in texts.iter().enumerate() {
            acc.evals += 1;
            let want = (h.expect)(t, s, 0);
            let got = guard_plain(|| find_spans(&re, t));
            if got != Got::Val(Ok(want.clone())) {
                let mut v = Violation::new("C17", "literal-match", &pat, t, 0, "captures", show_caps(&want), got.show());
                v.options = json!({"s": s, "host": h.name});
                acc.violate(v);
                continue;
            }
            // the same search started at every later character boundary (all texts for short
            // strings, a rotating third of them otherwise)
            if s.chars().count() > 2 && (ti + s.len()) % 3 != 0 {
                continue;
            }
            for from in (1..=t.len()).filter(|&i| t.is_char_boundary(i)) {
                acc.evals += 1;
                let want = (h.expect)(t, s, from);
                let got = captures_from(&re, t, from);
                if got != Got::Val(want.clone()) {
                    let mut v = Violation::new("C17", "literal-match", &pat, t, from, "captures_from_pos", show_caps(&want), got.show());
                    v.options = json!({"s": s, "host": h.name});
                    acc.violate(v);
                    break;
                }
            }
        }
    }
    if needs {
        acc.distinct += 1;
        acc.sample(1, || json!({"s": s, "escaped": e}));
    }
}

pub fn run(ctx: &Ctx) -> Outcome {
    let maxlen = ctx.tier.pick(3, 4);
    let hs_count = hosts().len();
    let n = SYMS.len() as u64;
    let mut work: Vec<(usize, u64, u64)> = vec![];
    for len in 0..=maxlen {
        let total = n.pow(len as u32);
        let mut s = 0;
        while s < total {
            work.push((len, s, (s + 500).min(total)));
            s += 500;
        }
    }
    let n_random = ctx.tier.pick(4_000u64, 60_000);
    for i in 0..32 {
        work.push((usize::MAX, i, n_random / 32));
    }
    let acc = par_run(&work, false, Some(5_000_000), |_, &(len, a, b), acc| {
        let hs = hosts();
        if len == usize::MAX {
            let mut rng = Rng::new(ctx.seed ^ a.wrapping_mul(77777));
            for _ in 0..b {
                let l = 3 + rng.below(8) as usize;
                let s: String = (0..l).map(|_| *rng.pick(&SYMS)).collect();
                check_string(&s, &hs, acc);
            }
        } else {
            for idx in a..b {
                let mut k = idx;
                let mut s = String::new();
                for _ in 0..len {
                    s.push_str(SYMS[(k % n) as usize]);
                    k /= n;
                }
                check_string(&s, &hs, acc);
            }
        }
    });
    let mut out = Outcome::new(acc);
    out.distinct_nontrivial = out.acc.distinct;
    out.exhaustive = true;
    out.rule = format!("all strings of length <= {} over {} symbols (every ASCII punctuation character incl. all regex meta-characters, a b 1 space newline é € 😀 ß ﬁ) plus {} seeded random strings of length 3-10; for each s: Cow::Borrowed iff s contains none of \\.+*?()|[]{{}}^$# ; Regex::new(host(escape(s))) compiles for {} hosts (E, (?:E), (E)\\1, (?=E)E, [ab]*E, (?<=E), (?>E)c?, (?:E){{2}}, (?!E)., (?<!-)[ab]E, E\\d?(?=), (?<!x)E[a7x\\-], (?=)E(?s:.), (?<=E)E, (?<=E)., (?=.?)E(?:(?=c)c|)*(?!!), (?!!)(E)(?:(?=c)c|)*?(?![c])\\1?, (?<=(?>E))E, (?>(?!!)[ab]*E), (?=(?!!)[ab]*?E)[ab]?, (?<=a(?:E)b), (?>-(?:E)x)7?, (?((?=!))!(E)|a)-\\1, (?m:(?!!)^E(?!!)), (?m:(?=)E$(?=)), (?x:E) for whitespace-free s, (?i:E)x? for letter-free s) and on texts u+s+v, s+s, s with its last character altered the captures equal what plain string search predicts, for a search from the start and from every later character boundary. Non-trivial: distinct strings containing a meta-character.", maxlen, SYMS.len(), n_random, hs_count);
    out.assumptions = vec!["'needs escaping' is the set \\.+*?()|[]{}^$# (regex meta-characters plus the comment character #)".into()];
    out
}
