//! C19 — equivalent spellings of a pattern behave identically.
use crate::ast::{GroupStyle, LitStyle, Mode, Node, Node::*, RefStyle, Style, A};
use crate::common::*;
use crate::gen;
use crate::rng::Rng;
use crate::spaces;
use fancy_regex::Expr;
use serde_json::json;

/// special atoms whose respellings are escapes (\h \H \e \t ...)
fn special_bases() -> Vec<Node> {
    let bx = |n: Node| Box::new(n);
    let h = || Node::class("[0-9A-Fa-f]");
    let nh = || Node::class("[^0-9A-Fa-f]");
    let esc = || Node::lit("\x1b");
    let tab = || Node::lit("\t");
    let mut v = vec![h(), nh(), esc(), tab(), Node::lit("\x07"), Node::lit("\r\x0c\x0b"), Node::lit("\n"), Node::lit("a\nb"), Concat(vec![Node::group(Node::lit("\n")), Backref(1)]), Repeat(bx(Node::lit("\n")), 1, None, Mode::Lazy)];
    for x in [h(), nh(), esc(), tab()] {
        v.push(Repeat(bx(x.clone()), 1, None, Mode::Greedy));
        v.push(Concat(vec![Node::group(x.clone()), Backref(1)]));
        v.push(Concat(vec![Look(bx(x.clone()), true, false), Node::lit("a")]));
        v.push(Alt(vec![x.clone(), Node::lit("a")]));
        v.push(Concat(vec![Atomic(bx(Repeat(bx(x.clone()), 0, None, Mode::Greedy))), Node::lit("g")]));
    }
    // possessive quantifiers of every form (`X{n}+`, `X{n,m}+`, `X{n,}+`, `X++`, ..) over bodies
    // that can match in more than one way, followed by something that would like a give-back
    let ab = || Alt(vec![Node::lit("a"), Node::lit("ab")]);
    let bodies: Vec<Node> = vec![ab(), Node::group(ab()), Repeat(bx(Node::lit("a")), 0, Some(1), Mode::Greedy), Node::group(Repeat(bx(Node::lit("a")), 0, None, Mode::Greedy)), Node::class("[ab]"), Alt(vec![Node::lit("ab"), Node::lit("a"), Node::lit("b")])];
    let tails: Vec<Node> = vec![Node::lit("c"), Node::lit("b"), Node::lit("a"), Node::lit("ab")];
    for body in &bodies {
        for (lo, hi) in [(2u32, Some(2u32)), (1, Some(1)), (3, Some(3)), (1, Some(2)), (0, Some(2)), (2, None), (1, None), (0, None), (0, Some(1))] {
            for tail in &tails {
                v.push(Concat(vec![Repeat(bx(body.clone()), lo, hi, Mode::Poss), tail.clone()]));
            }
            v.push(Concat(vec![Node::lit("a"), Node::group(Repeat(bx(body.clone()), lo, hi, Mode::Poss)), Node::lit("b")]));
        }
    }
    v
}

struct Variant {
    family: &'static str,
    pattern: String,
}

fn join_with(toks: &[String], sep: &mut dyn FnMut(usize) -> &'static str) -> String {
    let mut s = String::new();
    for (i, t) in toks.iter().enumerate() {
        if i > 0 {
            s.push_str(sep(i));
        }
        s.push_str(t);
    }
    s
}

fn variants(p: &Node, rng: &mut Rng, all_sites: bool) -> Vec<Variant> {
    let mut out = vec![];
    let d = Style::default();
    let has_groups = p.n_groups() > 0;
    let has_refs = p.has_refs();
    let has_poss = p.any(&|n| matches!(n, Repeat(_, _, _, Mode::Poss)));
    let mut push = |family: &'static str, pattern: String, base: &str| {
        if pattern != base {
            out.push(Variant { family, pattern });
        }
    };
    let base = p.print();
    // free-spacing: whitespace / newlines / line comments between any two tokens
    let xs = Style { lit_escapes: true, ..d.clone() };
    let toks = p.tokens(&xs);
    push("free-spacing", format!("(?x){}", join_with(&toks, &mut |_| " ")), &base);
    push("free-spacing", format!("(?x)\n{}\n", join_with(&toks, &mut |_| "\n")), &base);
    push("free-spacing", format!("(?x) {} # trailing", join_with(&toks, &mut |_| " # c\n ")), &base);
    push("free-spacing", format!("(?x) {} # 名 trailing 😀", join_with(&toks, &mut |_| " # 注释 é\n ")), &base);
    push("free-spacing", format!("(?x) {} # trailing\\", join_with(&toks, &mut |_| " # C:\\logs\\\n ")), &base);
    for _ in 0..2 {
        let seps = [" ", "", "\n", "\t ", " # x ( [ \\ \n", "\r\n", " #名é😀 (\n", "#é\n", " # dir\\\n", "#\\\n"];
        let mut r2 = rng.fork();
        push("free-spacing", format!("(?x){}", join_with(&toks, &mut |_| seps[r2.below(seps.len() as u64) as usize])), &base);
    }
    push("free-spacing", format!("(?x:{})", join_with(&toks, &mut |_| "  ")), &base);
    // free spacing and (?#...) comments together
    push("free-spacing+comment", format!("(?x) (?#a) {} (?#z) ", join_with(&toks, &mut |_| " (?# c ) ")), &base);
    push("free-spacing+comment", format!("(?x)(?#a) (?#b)\n{}", join_with(&toks, &mut |i| if i % 2 == 0 { "(?#1) (?#2) " } else { "\n(?#3)\t" })), &base);
    {
        let seps = [" ", "(?#c) ", " (?#c)", "(?#c)(?#d)", "\n", " # l\n (?#c) "];
        let mut r2 = rng.fork();
        push("free-spacing+comment", format!("(?x){}", join_with(&toks, &mut |_| seps[r2.below(seps.len() as u64) as usize])), &base);
    }
    // (?#...) comments
    let ptoks = p.tokens(&d);
    let comments = ["(?#c)", "(?#)", "(?# a\\)b (x )", "(?#|*+?{1})"];
    push("comment", format!("(?#lead){}(?#tail)", join_with(&ptoks, &mut |_| "(?#c)")), &base);
    let nsites = ptoks.len() + 1;
    let sites: Vec<usize> = if all_sites { (0..nsites).collect() } else { (0..3).map(|_| rng.below(nsites as u64) as usize).collect() };
    for site in sites {
        let c = comments[site % comments.len()];
        let mut s = String::new();
        for (i, t) in ptoks.iter().enumerate() {
            if i == site {
                s.push_str(c);
            }
            s.push_str(t);
        }
        if site == ptoks.len() {
            s.push_str(c);
        }
        push("comment", s, &base);
    }
    // named vs numbered groups and references
    if has_groups {
        for (g, r) in [(GroupStyle::Angle, RefStyle::KAngle), (GroupStyle::PName, RefStyle::PEq), (GroupStyle::Angle, RefStyle::KQuote), (GroupStyle::PName, RefStyle::KAngle)] {
            push("named-groups", p.print_with(&Style { group: g, backref: r, ..d.clone() }), &base);
        }
    }
    if has_refs {
        push("relative-backref", p.print_with(&Style { backref: RefStyle::Relative, ..d.clone() }), &base);
        push("k-numbered-backref", p.print_with(&Style { backref: RefStyle::KAngle, ..d.clone() }), &base);
    }
    push("inline-flags", p.print_with(&Style { scoped_flags_as_inline: true, ..d.clone() }), &base);
    push("text-anchor-escapes", p.print_with(&Style { text_anchors_as_escapes: true, ..d.clone() }), &base);
    for l in [LitStyle::Hex2, LitStyle::HexBrace, LitStyle::U4, LitStyle::U8] {
        push("hex-literals", p.print_with(&Style { lit: l, ..d.clone() }), &base);
    }
    push("possessive-as-atomic", p.print_with(&Style { possessive_as_atomic: true, ..d.clone() }), &base);
    push("quantifier-braces", p.print_with(&Style { quant_braces: true, ..d.clone() }), &base);
    push("literal-newline", p.print_with(&Style { newline_literal: true, ..d.clone() }), &base);
    push("escape-letters", p.print_with(&Style { lit_escapes: true, class_h: true, ..d.clone() }), &base);
    if !has_poss {
        push("swap-greed", p.print_with(&Style { swap_greed_groups: true, ..d.clone() }), &base);
    }
    // a flag-less scoped group around a run of adjacent elements (behaviour only: the tree nests)
    for w in gen::noncap_wraps(p, if all_sites { 12 } else { 4 }) {
        push("noncap-wrap", w.print(), &base);
    }
    out
}

/// hand-written (base, respelled) pairs for spellings the printer does not produce
fn pairs() -> Vec<(&'static str, &'static str)> {
    vec![
        ("a{1,2}", "(?x)a{ 1 , 2 }"),
        ("a{2}b{2,}", "(?x) a { 2 } b { 2 , }"),
        ("(?<n>a)\\k<n>", "(?P<n>a)(?P=n)"),
        ("(?<n>a)\\k<n>", "(?<n>a)\\k'n'"),
        ("(?<n>a)\\k<n>", "(?<n>a)\\k<-1>"),
        ("(a)(b)\\1\\2", "(a)(b)\\k<-2>\\k<-1>"),
        ("(a)\\1", "(a)\\k<1>"),
        ("(?<n>a)?(?(<n>)b|c)", "(?<n>a)?(?('n')b|c)"),
        ("(a)?(?(1)b|c)", "(a)?(?(<1>)b|c)"),
        ("a", "\\x61"),
        ("(?:(?i:a)|(?i:b))c", "(?:(?i)a|b)c"),
        ("^(x)?(?(1)(?i:b)|(?i:c))$", "^(x)?(?(1)(?i)b|c)$"),
        ("(?i:^(x)?(?(1)(?-i:b)|(?-i:c))$)", "(?i)^(x)?(?(1)(?-i)b|c)(?i)$"),
        ("(?((?=a))(?s:.)|(?s:.)b)", "(?((?=a))(?s).|.b)"),
        ("(?i)é", "(?i)\\xE9"),
        ("(?i)é", "(?i)\\u00e9"),
        ("(?i:café)", "(?i:caf\\x{e9})"),
        ("ab", "(?x) a (?#1) (?#2) b"),
        ("a|b", "(?x) a | (?# or ) b"),
        ("ab+c", "(?x) a b (?# c ) + c"),
        ("[ab]", "[\\x61b]"),
        ("[\\x1b]", "[\\e]"),
        ("[0-9A-Fa-f]+", "\\h+"),
        ("(?i:a)b", "(?:(?i)a)b"),
        ("(?i:ab)", "(?i)ab"),
        ("^ab$", "\\Aab\\z"),
        ("a*?b", "(?U)a*b"),
        ("a*b+?", "(?U)a*?b+"),
        ("é", "\\u00e9"),
        ("é", "\\U000000e9"),
        ("é", "\\x{e9}"),
        ("😀", "\\x{1F600}"),
        ("😀", "\\U0001f600"),
        ("a b", "a\\ b"),
        ("a b", "(?x) a\\ b"),
        ("ab", "(?x)a#c\nb"),
        ("ab", "a(?#x)b"),
        ("a-b", "a\\-b"),
        ("(?s:.)a", "(?s).a"),
        ("(?m:^a$)", "(?m)^a$"),
        ("(?>a*)b", "a*+b"),
        ("(?>a?)a", "a?+a"),
        ("(?>a+)", "a++"),
        ("(?>a{1,2})a", "a{1,2}+a"),
        ("a?", "a{0,1}"),
        ("a*", "a{0,}"),
        ("a+", "a{1,}"),
        ("a{2}", "a{2,2}"),
        ("\n", "\\n"),
        ("\t", "\\t"),
        ("(?<n>a)", "(?P<n>a)"),
        ("(?=a)a", "(?x)(?= a ) a"),
        ("(?<=a)b", "(?x)(?<= a ) b"),
        ("(?<!a)b", "(?#c)(?<!(?#c)a(?#c))(?#c)b(?#c)"),
        ("(?((?=a))ab|c)", "(?x)(?( (?=a) ) ab | c )"),
        // flag headers with several letters on either side of the `-`
        ("(?s:(?m:(?-s:(?-m:.^a$))))", "(?sm:(?-sm:.^a$))"),
        ("(?s:(?m:(?-s:(?-m:.^a$))))", "(?sm)(?-sm).^a$"),
        ("(?i:(?s:(?-i:(?-s:a.))))", "(?is:(?-is:a.))"),
        ("(?i:(?-s:(?-m:a.^)))", "(?i-sm:a.^)"),
        ("(?s:(?m:(?i:(?-s:(?-m:(?-i:a.$))))))b", "(?smi:(?-smi:a.$))b"),
        ("(?s:(?-m:(?-i:.a$)))", "(?s-mi:.a$)"),
        ("(?m:(?s:(?-s:(?-m:^.))))(?m:^)", "(?ms:(?-sm:^.))(?m:^)"),
        ("(?U:(?s:(?-U:(?-s:a*.))))", "(?Us:(?-Us:a*.))"),
        ("(?i:(?m:(?-i:(?-m:(?-s:a^.)))))", "(?im:(?-ims:a^.))"),
        // \h and \H as members of a bracket class
        ("[x[^0-9A-Fa-f]]", "[x\\H]"),
        ("[^[^0-9A-Fa-f]]", "[^\\H]"),
        ("[[^0-9A-Fa-f]\\d]", "[\\H\\d]"),
        ("[[0-9A-Fa-f]g]", "[\\hg]"),
        ("[^[0-9A-Fa-f]g]", "[^\\hg]"),
        ("[g[0-9A-Fa-f]-]", "[g\\h-]"),
        ("[^x[^0-9A-Fa-f]]+", "[^x\\H]+"),
        ("(?=[x[^0-9A-Fa-f]])[^a]", "(?=[x\\H])[^a]"),
    ]
}

/// Comparable image of a tree. `Expr` is PartialEq but not Clone, so its Debug rendering is
/// used; one normalisation: the case-insensitive flag of a literal without cased characters is
/// dropped (`(?i:\\.)` parses with casei = false, `(?i:\\x2e)` with casei = true - the same
/// expression, the flag has no meaning for ".").
fn canon(e: &Expr, out: &mut String) {
    match e {
        Expr::Literal { val, casei } => {
            let cased = val.to_lowercase() != val.to_uppercase();
            out.push_str(&format!("Literal {{ val: {:?}, casei: {} }}", val, *casei && cased));
        }
        Expr::Concat(v) | Expr::Alt(v) => {
            out.push_str(if matches!(e, Expr::Concat(_)) { "Concat([" } else { "Alt([" });
            for c in v {
                canon(c, out);
                out.push_str(", ");
            }
            out.push_str("])");
        }
        Expr::Group(c) => {
            out.push_str("Group(");
            canon(c, out);
            out.push(')');
        }
        Expr::AtomicGroup(c) => {
            out.push_str("AtomicGroup(");
            canon(c, out);
            out.push(')');
        }
        Expr::LookAround(c, la) => {
            out.push_str("LookAround(");
            canon(c, out);
            out.push_str(&format!(", {:?})", la));
        }
        Expr::Repeat { child, lo, hi, greedy } => {
            out.push_str("Repeat { child: ");
            canon(child, out);
            out.push_str(&format!(", lo: {}, hi: {}, greedy: {} }}", lo, hi, greedy));
        }
        Expr::Conditional { condition, true_branch, false_branch } => {
            out.push_str("Conditional { ");
            canon(condition, out);
            out.push_str(" ? ");
            canon(true_branch, out);
            out.push_str(" : ");
            canon(false_branch, out);
            out.push_str(" }");
        }
        // `\\h` / `\\H` never carry the flag, their spelled-out classes do; the classes contain both
        // cases of every letter, so the flag has no meaning for them either
        Expr::Delegate { inner, size, casei } => {
            let closed = inner == "[0-9A-Fa-f]" || inner == "[^0-9A-Fa-f]";
            out.push_str(&format!("Delegate {{ inner: {:?}, size: {}, casei: {} }}", inner, size, *casei && !closed));
        }
        other => out.push_str(&format!("{:?}", other)),
    }
}

fn tree_of(s: &str) -> Got<(String, Vec<usize>)> {
    guard(|| {
        let t = Expr::parse_tree(s)?;
        let mut img = String::new();
        canon(&t.expr, &mut img);
        Ok((img, t.backrefs.iter().collect()))
    })
}

pub fn run(ctx: &Ctx) -> Outcome {
    let sp = spaces::c01_space(ctx.tier, ctx.seed ^ 19, true, 3, 4, 2, 2, 10_000, 40_000);
    let mut bases = special_bases();
    let n_special = bases.len();
    bases.extend(sp.patterns);
    let mut texts = spaces::texts_c01(ctx.tier.pick(2, 3));
    texts.extend(gen::texts(&["a", "f", "0", "\x1b", "\t", "g"], 2));
    texts.extend(["ababc", "abab", "aabc", "abc", "aab", "abb", "aaab", "ababab", "aabb"].iter().map(|s| s.to_string()));
    let _ = A::StartText;
    let acc = par_run(&bases, false, Some(5_000_000), |i, p, acc| {
        if !p.refs_exist() {
            return;
        }
        let base = p.print();
        let Got::Val(base_tree) = tree_of(&base) else {
            acc.count("base-parse-err");
            return;
        };
        let base_re = compile_with(&base, |b| {
            b.backtrack_limit(20_000);
        });
        let mut rng = Rng::new(ctx.seed ^ (i as u64).wrapping_mul(0x19));
        let vs = variants(p, &mut rng, p.size() <= 3 || i < n_special);
        // base behaviour once
        let base_res: Option<Vec<Got<Option<refm_caps::Caps>>>> = base_re.val().map(|re| {
            let mut v = vec![];
            for t in &texts {
                for from in gen::offsets(t) {
                    v.push(captures_from(re, t, from));
                }
            }
            v
        });
        let matched = base_res.as_ref().map_or(false, |v| v.iter().any(|g| matches!(g, Got::Val(Some(_)))));
        for v in vs {
            acc.evals += 1;
            acc.count(&format!("family:{}", v.family));
            match tree_of(&v.pattern) {
                Got::Val(_) if v.family == "noncap-wrap" => {}
                Got::Val(t) => {
                    if t != base_tree {
                        let mut viol = Violation::new("C19", "tree-equality", &v.pattern, "", 0, "Expr::parse_tree", format!("the tree of {:?}: {}", base, base_tree.0), t.0);
                        viol.note = format!("respelling family: {}", v.family);
                        acc.violate(viol);
                        continue;
                    }
                }
                Got::Err(e) => {
                    // named forward references have no spelling; everything else must parse
                    if matches!(v.family, "named-groups" | "relative-backref" | "k-numbered-backref") && !p.refs_closed() {
                        acc.count("skipped:forward-reference-has-no-named-spelling");
                    } else {
                        let mut viol = Violation::new("C19", "respelling-rejected", &v.pattern, "", 0, "Expr::parse_tree", format!("parses like {:?}", base), e);
                        viol.note = format!("respelling family: {}", v.family);
                        acc.violate(viol);
                    }
                    continue;
                }
                o => {
                    acc.violate(Violation::new("C19", "panic", &v.pattern, "", 0, "Expr::parse_tree", "Ok or Err".into(), o.show()));
                    continue;
                }
            }
            // the same pair inside a case-insensitive scope (flags are parser state that every
            // spelling of a literal has to honour)
            if !v.pattern.starts_with("(?x)") && v.family != "noncap-wrap" {
                let mut differs = false;
                for fl in ["i", "U", "s"] {
                    // (the swap-greed family spells X? as (?U:X??): it is itself relative to U)
                    if fl == "U" && v.family == "swap-greed" {
                        continue;
                    }
                    let (bi, vi) = (tree_of(&format!("(?{}:{})", fl, base)), tree_of(&format!("(?{}:{})", fl, v.pattern)));
                    if bi != vi {
                        let mut viol = Violation::new("C19", "tree-equality", &format!("(?{}:{})", fl, v.pattern), "", 0, "Expr::parse_tree", format!("the tree of {:?}: {}", format!("(?{}:{})", fl, base), bi.show()), vi.show());
                        viol.note = format!("respelling family: {} inside (?{}:..)", v.family, fl);
                        acc.violate(viol);
                        differs = true;
                        break;
                    }
                }
                if differs {
                    continue;
                }
                acc.count("pairs-also-compared-inside-(?i:..)-(?U:..)-(?s:..)");
            }
            // behaviour
            let Some(base_res) = &base_res else { continue };
            let re = match compile_with(&v.pattern, |b| {
                b.backtrack_limit(20_000);
            }) {
                Got::Val(r) => r,
                o => {
                    let mut viol = Violation::new("C19", "respelling-rejected", &v.pattern, "", 0, "Regex::new", format!("compiles like {:?}", base), o.show());
                    viol.note = format!("respelling family: {}", v.family);
                    acc.violate(viol);
                    continue;
                }
            };
            let mut k = 0;
            for t in &texts {
                for from in gen::offsets(t) {
                    let got = captures_from(&re, t, from);
                    if got != base_res[k] && !got.is_step_cap() && !base_res[k].is_step_cap() {
                        let mut viol = Violation::new("C19", "behaviour", &v.pattern, t, from, "captures_from_pos", base_res[k].show(), got.show());
                        viol.note = format!("respelling ({}) of {:?}", v.family, base);
                        acc.violate(viol);
                    }
                    k += 1;
                }
            }
            if matched {
                acc.distinct += 1;
                acc.sample(1, || json!({"base": base, "respelled": v.pattern, "family": v.family}));
            }
        }
    });
    let mut acc = acc;
    // hand-written pairs
    for (base, resp) in pairs() {
        acc.evals += 1;
        acc.count("family:hand-written-pairs");
        let (tb, tr) = (tree_of(base), tree_of(resp));
        if tb != tr || tb.val().is_none() {
            acc.violate(Violation::new("C19", "tree-equality", resp, "", 0, "Expr::parse_tree", format!("the tree of {:?}: {}", base, tb.show()), tr.show()));
            continue;
        }
        if let (Got::Val(rb), Got::Val(rr)) = (compile(base), compile(resp)) {
            for t in &texts {
                for from in gen::offsets(t) {
                    let (a, b) = (captures_from(&rb, t, from), captures_from(&rr, t, from));
                    if a != b {
                        acc.violate(Violation::new("C19", "behaviour", resp, t, from, "captures_from_pos", a.show(), b.show()));
                    }
                }
            }
            acc.distinct += 1;
        } else {
            acc.violate(Violation::new("C19", "respelling-rejected", resp, "", 0, "Regex::new", format!("both {:?} and its respelling compile", base), "one of them does not".into()));
        }
    }
    let mut out = Outcome::new(acc);
    out.distinct_nontrivial = out.acc.distinct;
    let fams: Vec<String> = out.acc.counters.iter().filter(|(k, _)| k.starts_with("family:")).map(|(k, v)| format!("{}={}", &k[7..], v)).collect();
    out.rule = format!("base patterns: {} hand-built patterns around \\h \\H \\e \\t \\a \\r\\f\\v plus {}; respelling families (each applied to every base where it changes the string; comments at every site for the small trees, 3 seeded sites otherwise): {}; checked: Expr::parse_tree equality (tree and backreference set) and identical captures_from_pos on {} texts x every offset. Non-trivial: distinct (base, respelled) pairs whose strings differ and whose base matched at least one case.", n_special, sp.describe, fams.join(", "), texts.len());
    out.assumptions = vec!["named spellings of forward references do not exist (a named reference must follow its group); such variants are skipped and counted".into()];
    let nfam = fams.len();
    out.extra = json!({"families": fams});
    out.require(nfam >= 16, "not all respelling families were exercised");
    out
}

mod refm_caps {
    pub type Caps = crate::refm::Caps;
}
