//! C06 — compiling any string terminates with Ok or Err, never a panic or blow-up.
//! Worker processes (bin c06worker) run the monitors; this module has the shared pieces and
//! the parent that shards inputs, watches the workers and confirms nominated inputs.
use crate::common::*;
use crate::rng::Rng;
use serde_json::{json, Value};
use std::collections::{BTreeMap, BTreeSet};
use std::io::Write;
use std::process::{Command, Stdio};
use std::time::{Duration, Instant};

pub const STRUCTURAL: [&str; 75] = [
    "a", "b", "é", "😀", "1", "0", " ", "\n", ".", "^", "$", "|", "(", ")", "(?:", "(?=", "(?!", "(?<=", "(?<!", "(?>", "(?<n>", "(?P<n>", "(?P=n)", "(?(", "(?(1)", "(?(<n>)", "(?i)", "(?x)",
    "(?-", "(?#", "(?", "*", "+", "?", "*?", "*+", "{", "}", "{2}", "{1,2}", "{2,}", "{,2}", "{18446744073709551615}", "{99999999999999999999}", ",", "[", "]", "[^", "[a-", "-", "&&", "[:alpha:]", "\\", "\\1", "\\2",
    "\\k<n>", "\\k<-1>", "\\k<99999999999>", "\\g<1>", "\\b", "\\K", "\\G", "\\A", "\\z", "\\Z", "\\d", "\\p{", "\\pL", "\\x", "\\x{110000}", "\\x{", "\\u00e9", "\\h", "\\e", "#",
];
pub const EXTRA: [&str; 29] = [
    "\\x{1", "00000000", "FFFFFFFF", "\\u{",
    "\\k'n'", "\\k<", "\\g'-1'", "(?P>n)", "(?<", "(?'n')", "(?(?=a))", "\\U0010FFFF", "\\UFFFFFFFF", "\\N", "\\Q", "\\<", "\\>", "\\B{", "(?-u)", "(?U)", "(?s:", "(?imsx-imsx:", "]]", "[[", "\\p{Greek}", "{ 1 , 2 }", "(?#\\", "\\ ",
    "\r",
];

#[derive(Debug, Clone)]
pub enum CompileOut {
    Ok { vm: bool },
    Err { kind: String, pos: Option<usize> },
    Panic(String),
}

#[derive(Debug, Clone)]
pub struct CompileObs {
    pub out: CompileOut,
    pub parse_ok: bool,
    pub problems: Vec<String>,
}
impl CompileObs {
    pub fn violation(&self) -> Option<String> {
        if self.problems.is_empty() {
            None
        } else {
            Some(self.problems.join("; "))
        }
    }
}

/// One monitored `Regex::new` (plus `Expr::parse_tree` and `Display` of the error).
pub fn monitored_compile(input: &str) -> CompileObs {
    let mut problems = vec![];
    let parse = guard(|| fancy_regex::Expr::parse_tree(input).map(|_| ()));
    if let Got::Panic(m) = &parse {
        problems.push(format!("Expr::parse_tree panicked: {}", m));
    }
    let r = std::panic::catch_unwind(|| fancy_regex::Regex::new(input));
    let out = match r {
        Err(p) => {
            let m = panic_msg(&*p);
            problems.push(format!("Regex::new panicked: {}", m));
            CompileOut::Panic(m)
        }
        Ok(Ok(re)) => CompileOut::Ok { vm: route(&re).is_vm() },
        Ok(Err(e)) => {
            let pos = match &e {
                fancy_regex::Error::ParseError(p, _) => Some(*p),
                _ => None,
            };
            if let Some(p) = pos {
                if p > input.len() {
                    problems.push(format!("parse-error position {} > pattern length {}", p, input.len()));
                }
            }
            match std::panic::catch_unwind(|| format!("{}", e)) {
                Ok(s) if !s.is_empty() => {}
                Ok(_) => problems.push("Display of the error is empty".into()),
                Err(_) => problems.push("Display of the error panicked".into()),
            }
            let kind = err_kind(&e);
            let kind = kind.split(['(', ',']).filter(|s| !s.trim().chars().all(|c| c.is_ascii_digit())).take(2).collect::<Vec<_>>().join("(");
            CompileOut::Err { kind, pos }
        }
    };
    CompileObs { out, parse_ok: matches!(parse, Got::Val(())), problems }
}

#[derive(Default, Debug)]
pub struct Summary {
    pub n: u64,
    pub ok_vm: u64,
    pub ok_wrapped: u64,
    pub errs: BTreeMap<String, u64>,
    pub err_sites: BTreeSet<(String, usize)>,
    pub parsed: u64,
    pub panics: u64,
    pub max_peak: (usize, String),
    pub max_request: (usize, String),
    pub max_allocs: (usize, String),
}
impl Summary {
    pub fn note(&mut self, _i: usize, input: &str, r: &CompileObs, peak: usize, maxreq: usize, allocs: usize) {
        self.n += 1;
        if r.parse_ok {
            self.parsed += 1;
        }
        match &r.out {
            CompileOut::Ok { vm: true } => self.ok_vm += 1,
            CompileOut::Ok { vm: false } => self.ok_wrapped += 1,
            CompileOut::Err { kind, pos } => {
                *self.errs.entry(kind.clone()).or_default() += 1;
                if self.err_sites.len() < 5000 {
                    self.err_sites.insert((kind.clone(), pos.unwrap_or(usize::MAX)));
                }
            }
            CompileOut::Panic(_) => self.panics += 1,
        }
        if peak > self.max_peak.0 {
            self.max_peak = (peak, format!("[{} bytes] {}", input.len(), input.chars().take(60).collect::<String>()));
        }
        if maxreq > self.max_request.0 {
            self.max_request = (maxreq, format!("[{} bytes] {}", input.len(), input.chars().take(60).collect::<String>()));
        }
        if allocs > self.max_allocs.0 {
            self.max_allocs = (allocs, format!("[{} bytes] {}", input.len(), input.chars().take(60).collect::<String>()));
        }
    }
    pub fn json(&self) -> Value {
        json!({"n": self.n, "ok_vm": self.ok_vm, "ok_wrapped": self.ok_wrapped, "errs": self.errs, "err_sites": self.err_sites.iter().map(|(k, p)| format!("{}@{}", k, p)).collect::<Vec<_>>(),
            "parsed": self.parsed, "panics": self.panics, "max_peak": [self.max_peak.0.to_string(), self.max_peak.1.clone()], "max_request": [self.max_request.0.to_string(), self.max_request.1.clone()], "max_allocs": [self.max_allocs.0.to_string(), self.max_allocs.1.clone()]})
    }
}

fn token_sequences(tokens: &[&str], len: usize, out: &mut Vec<String>) {
    let n = tokens.len();
    let total = n.pow(len as u32);
    for mut idx in 0..total {
        let mut s = String::new();
        for _ in 0..len {
            s.push_str(tokens[idx % n]);
            idx /= n;
        }
        out.push(s);
    }
}

fn inputs(ctx: &Ctx) -> (Vec<String>, String) {
    let mut v: Vec<String> = vec![String::new()];
    let all: Vec<&str> = STRUCTURAL.iter().chain(EXTRA.iter()).copied().collect();
    let mut desc;
    match ctx.tier {
        Tier::Quick => {
            for l in 1..=3 {
                token_sequences(&all, l, &mut v);
            }
            desc = format!("all sequences of <= 3 tokens over {} fragments", all.len());
        }
        Tier::Thorough => {
            for l in 1..=3 {
                token_sequences(&all, l, &mut v);
            }
            token_sequences(&STRUCTURAL[..], 4, &mut v);
            desc = format!("all sequences of <= 3 tokens over {} fragments and of 4 tokens over the {} structural fragments", all.len(), STRUCTURAL.len());
        }
    }
    let n_exh = v.len();
    // seeded random longer sequences
    let mut rng = Rng::new(ctx.seed ^ 0xC06);
    let nrand = ctx.tier.pick(40_000, 400_000);
    for _ in 0..nrand {
        let l = 5 + rng.below(36) as usize;
        v.push((0..l).map(|_| *rng.pick(&all)).collect());
    }
    // mutations of valid patterns
    let valid: Vec<String> = crate::gen::random_patterns(ctx.seed ^ 0x6, ctx.tier.pick(3_000, 30_000), true, 4, 14).iter().map(|p| p.print()).collect();
    let nmut = valid.len() * 4;
    for p in &valid {
        let toks: Vec<char> = p.chars().collect();
        for _ in 0..4 {
            let mut t = toks.clone();
            if t.is_empty() {
                continue;
            }
            let i = rng.below(t.len() as u64) as usize;
            match rng.below(4) {
                0 => {
                    t.remove(i);
                }
                1 => {
                    let c = t[i];
                    t.insert(i, c);
                }
                2 => {
                    let j = rng.below(t.len() as u64) as usize;
                    t.swap(i, j);
                }
                _ => {
                    let tok = *rng.pick(&all);
                    for (k, c) in tok.chars().enumerate() {
                        t.insert(i + k, c);
                    }
                }
            }
            v.push(t.into_iter().collect());
        }
        v.push(p.clone());
    }
    // deep nesting probes
    let mut nprobe = 0;
    for open in ["(", "(?:", "(?=", "(?>", "(?<=", "[", "(?(", "(?i:", "a|(", "(a", "\\(", "{", "(?#", "(?x:#"] {
        for k in [10usize, 63, 64, 65, 200, 5_000, 100_000] {
            v.push(open.repeat(k));
            v.push(format!("{}a{}", open.repeat(k), ")".repeat(k)));
            nprobe += 2;
        }
    }
    // size arithmetic: huge (legal) counts in every position whose sizes the analysis adds or multiplies
    for n in ["4294967296", "9223372036854775807", "9223372036854775808", "18446744073709551615"] {
        for t in [
            "(?(a{N})b{N}|c)", "(?(a{N})b|c{N})", "(?((?:a{N}){N})b|c)", "(?(1)a{N}|b{N})", "(?<=a{N}b{N})", "(?<!a{N}|b{N})", "(?:a{N}){N}", "(?:a{N}b{N}){2}", "(a{N})\\1{N}",
            "(?=a{N})b{N}", "a{N}|b{N}", "(?>a{N})b{N}", "(?i:a{N}b{N})", "(?:a{N}){2,}", "(?:(?:a{N}){2}){N}", "a{N}b{N}c{N}\\b", "(?(?=a{N})b{N})", "(?:a|b{N}){N}+", "\\G(?:a{N}){N}?",
        ] {
            v.push(t.replace("N", n));
            nprobe += 1;
        }
    }
    // numbers at and just above 2^64 wherever the parser reads a decimal
    for n in ["18446744073709551616", "18446744073709551617", "18446744073709551619", "18446744073709551620", "99999999999999999999", "184467440737095516150", "340282366920938463463374607431768211456"] {
        for t in ["a{N}", "a{1,N}", "a{N,}", "a{N,N}", "(a)\\N", "(a)\\k<N>", "(a)(?(N)b|c)", "(?<n>a)(?P=N)", "(a)\\g<N>", "(a)\\k<-N>", "(?x) a { N }"] {
            v.push(t.replace("N", n));
            nprobe += 1;
        }
    }
    // the automata engine's own limits must stay in force for delegated pieces: an eager DFA that
    // would be exponential, NFAs beyond the size limit (wrapped route and inside VM programs)
    for t in ["[ab]*a[ab]{14}", "[ab]*a[ab]{17}", "[ab]*a[ab]{20}", "(?=a)[ab]*a[ab]{18}", "(a)\\1[ab]*a[ab]{19}", "\\w{150}", "\\w{300}", "\\w{1000}", "(a)\\1\\w{300}", "(?:\\w{50}){20}", "(?i)(?:\\pL{40}){40}", "(?<=b)\\w{700}"] {
        v.push(t.to_string());
        nprobe += 1;
    }
    for k in [100usize, 10_000, 200_000] {
        v.push("a".repeat(k));
        v.push("a|".repeat(k));
        v.push("a*".repeat(k));
        v.push(format!("(?<={})b", "a".repeat(k)));
        v.push("\\1".repeat(k));
        v.push("(a)".repeat(k.min(10_000)));
        nprobe += 6;
    }
    desc.push_str(&format!(" ({} exhaustive inputs); {} seeded random sequences of 5-40 tokens; {} valid generated patterns and {} single-token mutations of them (delete / duplicate / transpose / insert); {} deep-nesting, length and size-arithmetic probes (up to 100000 nested openers, 200000 repeated atoms, counts of 2^32 / 2^63 / 2^64-1 in conditions, branches, look-behinds, nested repeats; decimals of 2^64 .. 2^64+4, 10^20-1, 10*2^64, 2^128 in 11 positions; 12 patterns whose delegated piece is held back only by the automata engine's NFA / DFA size limits)", n_exh, nrand, valid.len(), nmut, nprobe));
    (v, desc)
}

/// Families of patterns that grow linearly in a depth parameter; compile cost (peak live bytes,
/// allocation count) must grow roughly linearly too. (body, wrapper prefix, wrapper suffix)
pub fn scaling_families() -> Vec<(String, Vec<(usize, String)>)> {
    // hard bodies only: the nesting is then compiled by fancy-regex itself. (Counted repeats of an
    // easy body are expanded by regex-automata - exponential in the nesting depth but bounded by its
    // own size limit, which the property allows.)
    let bodies = ["a\\b", "\\1y", "a(?=b)", "(?<!c)d\\b"];
    let wraps: [(&str, &str); 12] = [("(?:", "){2}"), ("(?:", "){3}"), ("(?:", "){2,3}"), ("(?:", ")*"), ("(?:", ")+?"), ("(?:", ")?"), ("(?:", "|b)"), ("(", ")"), ("(?>", ")"), ("(?=", ")"), ("(?:", "){1}"), ("(?i:", ")")];
    let mut out = vec![];
    for body in bodies {
        for (open, close) in wraps {
            let mut sizes = vec![];
            for depth in [4usize, 8, 16, 32] {
                let pat = format!("(x){}{}{}", open.repeat(depth), body, close.repeat(depth));
                sizes.push((depth, pat));
            }
            out.push((format!("{}{}{} nested", open, body, close), sizes));
        }
        // width instead of depth
        let mut sizes = vec![];
        for n in [8usize, 16, 32, 64] {
            sizes.push((n, format!("(x){}", format!("(?:{}){{2}}", body).repeat(n))));
        }
        out.push((format!("(?:{}){{2}} repeated", body), sizes));
    }
    out
}

struct Worker {
    child: std::process::Child,
    shard: usize,
    start: usize,
    last_progress: String,
    last_change: Instant,
}

fn read_progress(path: &str) -> String {
    std::fs::read_to_string(path).unwrap_or_default().trim().to_string()
}

/// Run one input alone in a fresh worker: (exit description, stderr, violation lines)
fn run_alone(bin: &str, dir: &str, input: &str, timeout: Duration, tag: &str) -> (String, String, Vec<Value>) {
    let inp = format!("{}/alone-{}.in", dir, tag);
    let prog = format!("{}/alone-{}.progress", dir, tag);
    let outp = format!("{}/alone-{}.out", dir, tag);
    let errp = format!("{}/alone-{}.err", dir, tag);
    std::fs::write(&inp, format!("{}\n", serde_json::to_string(input).unwrap())).unwrap();
    let _ = std::fs::remove_file(&outp);
    let mut child = Command::new(bin).args([&inp, &prog, &outp]).stdout(Stdio::null()).stderr(std::fs::File::create(&errp).unwrap()).spawn().expect("spawn worker");
    let t0 = Instant::now();
    let status = loop {
        match child.try_wait().unwrap() {
            Some(s) => break format!("{}", s),
            None => {
                if t0.elapsed() > timeout {
                    let _ = child.kill();
                    let _ = child.wait();
                    break "TIMEOUT".to_string();
                }
                std::thread::sleep(Duration::from_millis(20));
            }
        }
    };
    let stderr = std::fs::read_to_string(&errp).unwrap_or_default();
    let lines = std::fs::read_to_string(&outp).unwrap_or_default().lines().filter_map(|l| serde_json::from_str::<Value>(l).ok()).collect();
    (status, stderr, lines)
}

pub fn run(ctx: &Ctx) -> Outcome {
    let mut acc = Acc::default();
    let (all_inputs, desc) = inputs(ctx);
    let dir = format!("{}/work/c06-{}", verif_dir(), std::process::id());
    let _ = std::fs::remove_dir_all(&dir);
    std::fs::create_dir_all(&dir).unwrap();
    let bin = std::env::current_exe().unwrap().with_file_name("c06worker").to_string_lossy().to_string();
    let nshards = NTHREADS;
    // interleave so that every shard gets a mix
    let mut shards: Vec<Vec<&String>> = vec![vec![]; nshards];
    for (i, s) in all_inputs.iter().enumerate() {
        shards[i % nshards].push(s);
    }
    for (k, sh) in shards.iter().enumerate() {
        let mut f = std::io::BufWriter::new(std::fs::File::create(format!("{}/shard{}.in", dir, k)).unwrap());
        for s in sh {
            writeln!(f, "{}", serde_json::to_string(s).unwrap()).unwrap();
        }
    }
    let spawn = |shard: usize, start: usize| -> Worker {
        let child = Command::new(&bin)
            .args([format!("{}/shard{}.in", dir, shard), format!("{}/shard{}.progress", dir, shard), format!("{}/shard{}.out", dir, shard), start.to_string()])
            .stdout(Stdio::null())
            .stderr(std::fs::OpenOptions::new().create(true).append(true).open(format!("{}/shard{}.err", dir, shard)).unwrap())
            .spawn()
            .expect("spawn c06worker");
        Worker { child, shard, start, last_progress: String::new(), last_change: Instant::now() }
    };
    let mut workers: Vec<Worker> = (0..nshards).map(|k| spawn(k, 0)).collect();
    let mut nominees: Vec<(String, String)> = vec![]; // (input, why)
    const MAX_NOMINEES: usize = 32;
    let mut abandoned = 0u64;
    let stall = Duration::from_secs(20);
    while !workers.is_empty() {
        std::thread::sleep(Duration::from_millis(50));
        let mut next = vec![];
        for mut w in workers {
            let ppath = format!("{}/shard{}.progress", dir, w.shard);
            match w.child.try_wait().unwrap() {
                Some(st) if st.success() => {}
                Some(st) => {
                    // died: the input in progress is nominated; carry on after it
                    let p = read_progress(&ppath);
                    let idx: usize = p.parse().unwrap_or(w.start);
                    if let Some(inp) = shards[w.shard].get(idx) {
                        nominees.push(((*inp).clone(), format!("worker exited with {}", st)));
                    }
                    // flood control: a tree on which workers keep dying has its verdict after a
                    // few dozen nominees; the rest of the shard is abandoned
                    if idx + 1 < shards[w.shard].len() && nominees.len() < MAX_NOMINEES {
                        next.push(spawn(w.shard, idx + 1));
                    } else if idx + 1 < shards[w.shard].len() {
                        abandoned += 1;
                    }
                }
                None => {
                    let p = read_progress(&ppath);
                    if p != w.last_progress {
                        w.last_progress = p;
                        w.last_change = Instant::now();
                        next.push(w);
                    } else if w.last_change.elapsed() > stall {
                        let _ = w.child.kill();
                        let _ = w.child.wait();
                        let idx: usize = w.last_progress.parse().unwrap_or(w.start);
                        if let Some(inp) = shards[w.shard].get(idx) {
                            nominees.push(((*inp).clone(), format!("no progress for {} s", stall.as_secs())));
                        }
                        if idx + 1 < shards[w.shard].len() && nominees.len() < MAX_NOMINEES {
                            next.push(spawn(w.shard, idx + 1));
                        } else if idx + 1 < shards[w.shard].len() {
                            abandoned += 1;
                        }
                    } else {
                        next.push(w);
                    }
                }
            }
        }
        workers = next;
    }
    // collect
    let mut total = Summary::default();
    let mut sites: BTreeSet<String> = BTreeSet::new();
    let mut maxes: Vec<Value> = vec![];
    for k in 0..nshards {
        let text = std::fs::read_to_string(format!("{}/shard{}.out", dir, k)).unwrap_or_default();
        for line in text.lines() {
            let Ok(v) = serde_json::from_str::<Value>(line) else { continue };
            if let Some(viol) = v.get("violation") {
                let input = v["input"].as_str().unwrap_or("").to_string();
                acc.violate(Violation::new("C06", "compile-monitor", &input, "", 0, "Regex::new", "Ok or Err; error position <= pattern length".into(), viol.as_str().unwrap_or("").to_string()));
            }
            if let Some(s) = v.get("summary") {
                total.n += s["n"].as_u64().unwrap_or(0);
                total.ok_vm += s["ok_vm"].as_u64().unwrap_or(0);
                total.ok_wrapped += s["ok_wrapped"].as_u64().unwrap_or(0);
                total.parsed += s["parsed"].as_u64().unwrap_or(0);
                total.panics += s["panics"].as_u64().unwrap_or(0);
                if let Some(m) = s["errs"].as_object() {
                    for (k, n) in m {
                        *total.errs.entry(k.clone()).or_default() += n.as_u64().unwrap_or(0);
                    }
                }
                if let Some(a) = s["err_sites"].as_array() {
                    for e in a {
                        sites.insert(e.as_str().unwrap_or("").to_string());
                    }
                }
                maxes.push(json!({"max_peak": s["max_peak"], "max_request": s["max_request"], "max_allocs": s["max_allocs"]}));
            }
        }
    }
    acc.evals = total.n;
    // confirm nominees alone, with a generous timeout
    let mut confirmed = 0;
    acc.add("shards-abandoned-after-32-nominees", abandoned);
    for (i, (inp, why)) in nominees.iter().enumerate() {
        // the first dozen confirmed nominees settle the verdict
        if confirmed >= 12 {
            acc.count("nominees-not-confirmed-individually (flood)");
            continue;
        }
        acc.evals += 1;
        let (status, stderr, lines) = run_alone(&bin, &dir, inp, Duration::from_secs(60), &i.to_string());
        let shown: String = inp.chars().take(120).collect();
        if status.contains("exit status: 0") || status == "exit status: 0" {
            for l in &lines {
                if let Some(v) = l.get("violation") {
                    acc.violate(Violation::new("C06", "compile-monitor", inp, "", 0, "Regex::new", "Ok or Err".into(), v.as_str().unwrap_or("").to_string()));
                }
            }
            acc.inconclusive += 1;
            acc.count("nominee-not-reproduced");
            eprintln!("C06: nominee did not reproduce alone ({}): {:?}", why, shown);
            continue;
        }
        confirmed += 1;
        let what = if stderr.contains("ALLOC-CAP") {
            format!("allocation above the cap of 64 MiB + 2 MiB per pattern byte: {}", stderr.lines().find(|l| l.contains("ALLOC-CAP")).unwrap_or(""))
        } else if status == "TIMEOUT" {
            "Regex::new did not return within 60 s".to_string()
        } else if status.contains("signal: 11") || status.contains("SIGSEGV") || stderr.contains("stack overflow") {
            format!("native stack overflow on a 2 MiB thread stack ({})", status)
        } else {
            format!("worker process died: {} {}", status, stderr.lines().last().unwrap_or(""))
        };
        let mut v = Violation::new("C06", "process-monitor", inp, "", 0, "Regex::new", "returns Ok or Err within bounded time, memory and stack".into(), what);
        v.note = format!("nominated because: {}; pattern length {} bytes; shown truncated: {:?}", why, inp.len(), shown);
        acc.violate(v);
    }
    // scaling monitor: cost of nested / repeated families must not explode with their size
    let fams = scaling_families();
    let flat: Vec<&String> = fams.iter().flat_map(|(_, v)| v.iter().map(|(_, p)| p)).collect();
    let mpath = format!("{}/scaling.in", dir);
    std::fs::write(&mpath, flat.iter().map(|p| serde_json::to_string(p).unwrap()).collect::<Vec<_>>().join("\n") + "\n").unwrap();
    let mout = format!("{}/scaling.out", dir);
    let st = Command::new(&bin).args([&mpath, &format!("{}/scaling.progress", dir), &mout, "0", "measure"]).stdout(Stdio::null()).stderr(Stdio::null()).status();
    let mut measures: BTreeMap<String, (u64, u64, String)> = BTreeMap::new();
    for line in std::fs::read_to_string(&mout).unwrap_or_default().lines() {
        if let Ok(v) = serde_json::from_str::<Value>(line) {
            if let Some(m) = v.get("measure") {
                measures.insert(m["input"].as_str().unwrap_or("").to_string(), (m["peak"].as_u64().unwrap_or(0), m["allocs"].as_u64().unwrap_or(0), m["outcome"].as_str().unwrap_or("").to_string()));
            }
        }
    }
    let mut worst_ratio = 0f64;
    let mut scaling_checked = 0u64;
    if st.map(|s| s.success()).unwrap_or(false) {
        for (name, sizes) in &fams {
            for w in sizes.windows(2) {
                let (Some(a), Some(b)) = (measures.get(&w[0].1), measures.get(&w[1].1)) else { continue };
                // only where both compile the same way and the cost is above the noise floor
                if a.2 != b.2 || b.0 < 256 * 1024 {
                    continue;
                }
                scaling_checked += 1;
                acc.evals += 1;
                let ratio = (b.0 as f64 / a.0.max(1) as f64).max(b.1 as f64 / a.1.max(1) as f64);
                worst_ratio = worst_ratio.max(ratio);
                // doubling the size may cost up to 4x (linear = 2x; slack for allocator rounding)
                if ratio > 4.0 {
                    let mut v = Violation::new("C06", "scaling-monitor", &w[1].1, "", 0, "Regex::new", format!("cost at size {} at most 4x the cost at size {} ({} bytes peak, {} allocations)", w[1].0, w[0].0, a.0, a.1), format!("{} bytes peak, {} allocations ({:.1}x)", b.0, b.1, ratio));
                    v.note = format!("family: {}", name);
                    acc.violate(v);
                }
            }
        }
    } else {
        acc.count("scaling-shard-died (its inputs are nominated like any other)");
        // find out which one: run them through the normal nomination path
        for p in &flat {
            let (status, stderr, _) = run_alone(&bin, &dir, p, Duration::from_secs(60), "scale");
            if !status.contains("exit status: 0") {
                let what = if stderr.contains("ALLOC-CAP") { "allocation above the cap".to_string() } else { format!("worker died: {}", status) };
                acc.violate(Violation::new("C06", "process-monitor", p, "", 0, "Regex::new", "returns Ok or Err within bounded time, memory and stack".into(), what));
                break;
            }
        }
    }
    acc.add("scaling-pairs-checked", scaling_checked);
    acc.add("scaling-inputs-measured", measures.len() as u64);
    acc.max("scaling-max-peak-bytes", measures.values().map(|m| m.0).max().unwrap_or(0));
    acc.max("scaling-max-allocations", measures.values().map(|m| m.1).max().unwrap_or(0));
    acc.max("worst-cost-ratio-for-doubled-size-x100", (worst_ratio * 100.0) as u64);
    let _ = std::fs::remove_dir_all(&dir);
    for (k, n) in &total.errs {
        acc.add(&format!("err:{}", k), *n);
    }
    acc.add("ok:vm", total.ok_vm);
    acc.add("ok:wrapped", total.ok_wrapped);
    acc.add("parse-succeeded", total.parsed);
    acc.add("nominated", nominees.len() as u64);
    acc.add("confirmed", confirmed);
    acc.samples.push(json!({"example_inputs": all_inputs.iter().step_by((all_inputs.len() / 6).max(1)).take(6).map(|s| s.chars().take(60).collect::<String>()).collect::<Vec<_>>()}));
    // per-shard maxima of the resource monitors
    let mut best_peak = (0u64, String::new());
    let mut best_allocs = (0u64, String::new());
    let mut best_req = (0u64, String::new());
    for m in &maxes {
        for (key, best) in [("max_peak", &mut best_peak), ("max_allocs", &mut best_allocs), ("max_request", &mut best_req)] {
            let n: u64 = m[key][0].as_str().unwrap_or("0").parse().unwrap_or(0);
            if n > best.0 {
                *best = (n, m[key][1].as_str().unwrap_or("").chars().take(80).collect());
            }
        }
    }
    let mut out = Outcome::new(acc);
    out.distinct_nontrivial = total.parsed + sites.len() as u64;
    out.rule = format!("{}. Every input is compiled in a worker process (16 shards) on a 2 MiB thread stack under: catch_unwind with overflow checks and debug assertions compiled into fancy-regex; a counting global allocator with a cap of 64 MiB + 2 MiB per pattern byte on live bytes (an allocation above it is refused, the process aborts and the parent sees which input was in progress); error position <= pattern length and Display of every error; a 20 s no-progress watchdog that only nominates - every nominated input is re-run alone with 60 s and only a reproduced death / hang is a violation; a scaling monitor over 52 pattern families (4 hard bodies x 12 nesting wrappers at depth 4/8/16/32, and repeated `(?:body){{2}}` at width 8..64): where the cost exceeds 256 KiB, doubling the size may cost at most 4x in peak bytes and allocations. Non-trivial: inputs that passed the parser plus distinct (error kind, position) pairs.", desc);
    out.assumptions = vec!["time is observed through the allocation count (logical cost) and a confirmed wall-clock watchdog, not a cycle-exact bound".into()];
    out.extra = json!({"resource_maxima": {"peak_live_bytes_during_one_compile": best_peak.0, "peak_input": best_peak.1, "largest_single_request": best_req.0, "largest_request_input": best_req.1, "most_allocations_in_one_compile": best_allocs.0, "most_allocations_input": best_allocs.1, "cap_base": 64 << 20, "cap_per_byte": 2 << 20}, "distinct_error_sites": sites.len(), "worker_processes": nshards});
    let (n, ok) = (total.n, total.ok_vm + total.ok_wrapped);
    out.require((abandoned > 0 && confirmed > 0) || n as usize + nominees.len() >= all_inputs.len(), "not every input was processed by a worker");
    out.require(ok > 0 && total.errs.len() >= 5, "too few distinct outcomes observed");
    out
}
