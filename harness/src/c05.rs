//! C05 — searching never panics and every reported offset is valid.
use crate::common::*;
use crate::gen;
use crate::spaces;
use crate::sweep::{sweep, Case, SweepCfg};
use fancy_regex::{Captures, Regex};
use serde_json::json;

fn bad_span(t: &str, s: usize, e: usize) -> Option<String> {
    if s > e {
        Some(format!("start {} > end {}", s, e))
    } else if e > t.len() {
        Some(format!("end {} > len {}", e, t.len()))
    } else if !t.is_char_boundary(s) || !t.is_char_boundary(e) {
        Some(format!("{}..{} not on char boundaries", s, e))
    } else {
        None
    }
}

/// check all spans of a Captures, then exercise the slicing sites (as_str, Index, expand)
fn check_caps(t: &str, c: &Captures<'_>) -> Result<u64, String> {
    let mut n = 0;
    for i in 0..c.len() {
        if let Some(m) = c.get(i) {
            if let Some(b) = bad_span(t, m.start(), m.end()) {
                return Err(format!("group {}: {}", i, b));
            }
            n += 1;
            let _ = m.as_str();
            let _ = &c[i];
            let _ = m.range();
        }
    }
    if c.get(0).is_none() {
        return Err("group 0 is None on a match".into());
    }
    let mut dst = String::new();
    c.expand("$0$1${2}", &mut dst);
    Ok(n)
}

fn one_text(re: &Regex, t: &str) -> Result<u64, String> {
    let e = |e: fancy_regex::Error| err_kind(&e);
    let mut spans = 0u64;
    // Err is an allowed outcome everywhere; only a bad span is reported from here
    for from in gen::offsets(t) {
        if let Ok(Some(c)) = re.captures_from_pos(t, from) {
            spans += check_caps(t, &c)?;
        }
        if let Ok(Some(m)) = re.find_from_pos(t, from) {
            if let Some(b) = bad_span(t, m.start(), m.end()) {
                return Err(format!("find_from_pos({}): {}", from, b));
            }
            let _ = m.as_str();
            spans += 1;
        }
    }
    let _ = re.is_match(t);
    if let Ok(Some(m)) = re.find(t) {
        let _ = m.as_str();
    }
    let bound = t.chars().count() + 3;
    let mut n = 0;
    for m in re.find_iter(t) {
        n += 1;
        if n > bound {
            return Err(format!("find_iter yielded more than {} items", bound));
        }
        if let Ok(m) = m {
            if let Some(b) = bad_span(t, m.start(), m.end()) {
                return Err(format!("find_iter: {}", b));
            }
            let _ = m.as_str();
            spans += 1;
        }
    }
    n = 0;
    for c in re.captures_iter(t) {
        n += 1;
        if n > bound {
            return Err(format!("captures_iter yielded more than {} items", bound));
        }
        if let Ok(c) = c {
            spans += check_caps(t, &c)?;
        }
    }
    for (k, it) in [re.splitn(t, usize::MAX), re.splitn(t, 2), re.splitn(t, 1), re.splitn(t, 0)].into_iter().enumerate() {
        n = 0;
        for piece in it {
            n += 1;
            if n > bound + 1 {
                return Err(format!("split/splitn #{} yielded more than {} items", k, bound + 1));
            }
            let _ = piece.map(|p| p.len());
        }
    }
    n = 0;
    for piece in re.split(t) {
        n += 1;
        if n > bound + 1 {
            return Err(format!("split yielded more than {} items", bound + 1));
        }
        let _ = piece.map(|p| p.len());
    }
    for limit in [0usize, 1, 2] {
        let ok1 = re.try_replacen(t, limit, "<$0|$1>").map_err(e);
        let ok2 = re.try_replacen(t, limit, fancy_regex::NoExpand("x")).map_err(e);
        let ok3 = re.try_replacen(t, limit, |c: &Captures<'_>| c[0].to_string()).map_err(e);
        // replace* are documented to panic on a runtime error, so only call them after try_ succeeded
        if ok1.is_ok() && ok2.is_ok() && ok3.is_ok() {
            let _ = re.replacen(t, limit, "<$0|$1>");
            if limit == 0 {
                let _ = re.replace_all(t, "$1");
            }
            if limit == 1 {
                let _ = re.replace(t, "$1");
            }
        }
    }
    Ok(spans)
}

/// Thorough tier: the sanitizer slice (crate sanit/c05miri) interpreted by Miri, 8 shards.
/// Returns (status, operations, spans, first report).
fn miri_slice() -> (String, u64, u64, String) {
    use std::process::{Command, Stdio};
    let root = verif_dir();
    let dir = format!("{}/sanit/c05miri", root);
    let target = format!("{}/target-miri", root);
    let warm = Command::new("cargo").args(["+nightly", "miri", "run", "--target-dir", &target, "--", "99", "100"]).current_dir(&dir).env("MIRIFLAGS", "-Zmiri-disable-isolation").env("CARGO_NET_OFFLINE", "true").stdout(Stdio::piped()).stderr(Stdio::piped()).output();
    match warm {
        Ok(o) if o.status.success() => {}
        Ok(o) => return ("unavailable (miri build/run failed)".into(), 0, 0, String::from_utf8_lossy(&o.stderr).lines().rev().take(5).collect::<Vec<_>>().join(" | ")),
        Err(e) => return (format!("unavailable ({})", e), 0, 0, String::new()),
    }
    let n = 8;
    let kids: Vec<_> = (0..n)
        .map(|i| Command::new("cargo").args(["+nightly", "miri", "run", "--target-dir", &target, "--", &i.to_string(), &n.to_string()]).current_dir(&dir).env("MIRIFLAGS", "-Zmiri-disable-isolation").env("CARGO_NET_OFFLINE", "true").stdout(Stdio::piped()).stderr(Stdio::piped()).spawn())
        .collect();
    let (mut ops, mut spans) = (0u64, 0u64);
    let mut status = "ok".to_string();
    let mut report = String::new();
    for k in kids {
        let Ok(k) = k else {
            status = "unavailable (spawn failed)".into();
            continue;
        };
        let Ok(o) = k.wait_with_output() else { continue };
        let out = String::from_utf8_lossy(&o.stdout).to_string();
        let err = String::from_utf8_lossy(&o.stderr).to_string();
        if let Some(l) = out.lines().find(|l| l.starts_with("c05miri shard")) {
            let nums: Vec<u64> = l.split(|c: char| !c.is_ascii_digit()).filter_map(|x| x.parse().ok()).collect();
            if nums.len() >= 4 {
                ops += nums[nums.len() - 2];
                spans += nums[nums.len() - 1];
            }
        }
        if !o.status.success() {
            status = if err.contains("Undefined Behavior") || err.contains("panicked") { "violated".into() } else { "error".into() };
            report = err.lines().filter(|l| l.contains("error") || l.contains("panicked") || l.contains("Undefined")).take(6).collect::<Vec<_>>().join(" | ");
        }
    }
    (status, ops, spans, report)
}

pub fn run(ctx: &Ctx) -> Outcome {
    let miri = if ctx.tier == Tier::Thorough { Some(std::thread::spawn(miri_slice)) } else { None };
    let sp = spaces::unrestricted(ctx.tier, ctx.seed, 4, 4, 8_000, 80_000);
    let texts = spaces::texts_mb(ctx.tier.pick(3, 4));
    // quick tier: the 4-node and random trees get the texts up to length 2 plus a seeded sample of
    // the longer ones; the smaller trees get all of them
    let quick = ctx.tier == Tier::Quick;
    let short_len = texts.iter().filter(|t| t.chars().count() <= 2).count();
    let cfg = SweepCfg { prop: "C05", backtrack_limit: Some(20_000), step_cap: Some(3_000_000), shadow: true, casei_every: 0 };
    let acc = sweep(&cfg, &sp.patterns, |c: &Case<'_>, acc| {
        let mut multibyte_spans = false;
        let reduced = quick && c.node.size() >= 4;
        for (ti, t) in texts.iter().enumerate() {
            if reduced && ti >= short_len && (ti + c.index) % 8 != 0 {
                continue;
            }
            acc.evals += 1;
            match guard_plain(|| one_text(c.re, t)) {
                Got::Val(Ok(n)) => {
                    acc.add("valid-spans-checked", n);
                    multibyte_spans |= n > 0 && !t.is_ascii();
                }
                Got::Val(Err(what)) => acc.violate(Violation::new("C05", "offsets", c.pattern, t, 0, "all entry points", "start <= end <= len on char boundaries; bounded iteration".into(), what)),
                Got::StepCap => {
                    acc.inconclusive += 1;
                    acc.count("step-cap-hit");
                }
                o => acc.violate(Violation::new("C05", "panic", c.pattern, t, 0, "all entry points", "a value or Err".into(), o.show())),
            }
        }
        if multibyte_spans {
            acc.distinct += 1;
            acc.sample(2, || json!({"pattern": c.pattern, "route": if c.route.is_vm() {"vm"} else {"wrapped"}}));
        }
    });
    let mut acc = acc;
    let mut miri_json = json!("not run in the quick tier");
    if let Some(h) = miri {
        let (status, ops, spans, report) = h.join().unwrap_or(("unavailable (thread panicked)".into(), 0, 0, String::new()));
        if status == "violated" {
            let mut v = Violation::new("C05", "miri-slice", "sanit/c05miri", "", 0, "cargo +nightly miri run", "no undefined behaviour, no panic, valid spans".into(), report.clone());
            v.note = "re-run: cd /verif/sanit/c05miri && MIRIFLAGS=-Zmiri-disable-isolation cargo +nightly miri run -- 0 1".into();
            acc.violate(v);
        }
        acc.evals += ops;
        miri_json = json!({"status": status, "operations": ops, "spans_validated": spans, "report": report});
    }
    let mut out = Outcome::new(acc);
    out.distinct_nontrivial = out.acc.distinct;
    out.rule = format!("{}; x all {} texts over {{a, é(2 bytes), €(3), 😀(4), \\n}} up to length {} (quick tier: trees of >= 4 nodes get the texts up to length 2 and every 8th longer one) x every char-boundary start offset x captures_from_pos, find_from_pos, is_match, find, find_iter, captures_iter, split, splitn(0,1,2,max), try_replacen/replacen/replace/replace_all with a template, NoExpand and a closure; every call under catch_unwind with overflow checks and debug assertions compiled into fancy-regex; every reported span validated, then Match::as_str, Index and expand executed. Runs use backtrack_limit 20000 and a VM step cap (cap hits are inconclusive cases). Non-trivial: distinct patterns that reported valid spans on a text containing multi-byte characters.", sp.describe, texts.len(), ctx.tier.pick(3, 4));
    out.assumptions = vec!["Err(RuntimeError) is an allowed outcome; replace/replacen/replace_all are only called where try_replacen succeeded (they are documented to panic on runtime errors)".into()];
    let (vm, wr, spans) = (out.acc.get("route:vm"), out.acc.get("route:wrapped"), out.acc.get("valid-spans-checked"));
    out.extra = json!({"routes": {"vm": vm, "wrapped": wr}, "miri_slice": miri_json});
    out.require(vm > 0 && spans > 0, "no VM-route spans were checked");
    let inc = out.acc.inconclusive;
    let ev = out.acc.evals;
    out.require(inc * 50 <= ev, "more than 2% of the cases hit the step cap");
    out
}
