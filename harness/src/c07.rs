//! C07 — searches terminate; limit errors only when the limit is really exceeded.
use crate::ast::Node;
use crate::common::*;
use crate::refm;
use crate::rng::Rng;
use crate::spaces;
use fancy_regex::Regex;
use serde_json::json;
use std::collections::BTreeMap;

// (the last three: values that do not fit 32 bits must not be truncated into small ones)
const LIMITS: [usize; 11] = [0, 1, 2, 3, 5, 10, 100, 1_000_000, 1 << 32, (1 << 32) + 7, usize::MAX];
const STEP_CAP: u64 = 5_000_000;
const BT_ERR: &str = "RuntimeError(BacktrackLimitExceeded)";
const SO_ERR: &str = "RuntimeError(StackOverflow)";

fn repeat_factor(p: &Node) -> f64 {
    let mut f = 1.0;
    if let Node::Repeat(_, lo, hi, _) = p {
        f *= 1.0 + hi.unwrap_or(*lo).max(*lo) as f64;
    }
    for c in p.children() {
        f *= repeat_factor(c);
    }
    f
}


/// Hook invariant: every alternative the VM takes up again has been counted against the limit
/// (the only uncounted pops are the ones with which a failing negative look-around throws away
/// its own alternatives).
fn uncounted(acc: &mut Acc, h: &HookStats, s: &str, t: &str, api: &str) {
    if h.uncounted_resumes > 0 {
        let mut v = Violation::new("C07", "uncounted-resume", s, t, 0, api, "every resumed alternative is counted against the backtrack limit".into(), format!("{} alternatives resumed without being counted ({} counted)", h.uncounted_resumes, h.last_backtracks));
        v.note = "hook: a pop outside a negative look-around's discard loop that was not preceded by the failure path's increment of the backtrack counter".into();
        acc.violate(v);
    }
}

/// Catastrophic families: an ambiguous core whose 2^n ways of matching all die in the tail, on
/// a text long enough that nothing else fails. Whatever instruction the failures come from, a
/// small backtrack limit must end the search after a number of steps proportional to the limit.
fn families() -> Vec<(String, String)> {
    let mut v = vec![];
    let tails: [(&str, &str); 16] = [
        ("", "(?!a)"), ("", "(?<!a)"), ("", "(?=b)"), ("", "(?<=b)"), ("", "b"), ("", "[bc]"), ("", "\\b"), ("", "$"), ("", "\\z"), ("", "(?>b)"),
        ("(b)?", "\\1"), ("(b)?", "(?(1)b|b)"), ("", "\\Gb"), ("", "(?!a|$)b?"), ("", "(?:(?!a))"), ("", "(?<![ab])"),
    ];
    for n in [18usize, 22] {
        let cores = [format!("(?:a|aa){{{}}}", n), format!("(?:a(?=)|a){{{}}}", n), format!("(?:(?:a|aa){{{}}})", n / 2).repeat(2), format!("(?:a|aa){{{},{}}}?", n - 1, n), format!("(?>(?:a|aa){{{}}}(?!a))|(?:a|aa){{{}}}", n, n)];
        for (ci, core) in cores.iter().enumerate() {
            for (pre, tail) in tails {
                for anchor in ["^", ""] {
                    if anchor.is_empty() && ci > 1 {
                        continue;
                    }
                    v.push((format!("{}{}{}{}", anchor, pre, core, tail), "a".repeat(2 * n + 3)));
                }
            }
        }
    }
    v
}

const EFF_LIMITS: [usize; 2] = [100, 5000];
const EFF_CAP: u64 = 60_000_000;

fn efficacy(ctx: &Ctx, sample: &[Node]) -> Acc {
    #[derive(Clone)]
    struct Item {
        pattern: String,
        text: String,
        family: bool,
        depth: u32,
        rf: f64,
    }
    let mut items: Vec<Item> = families().into_iter().map(|(pattern, text)| Item { pattern, text, family: true, depth: 1, rf: 1.0 }).collect();
    // the same question on seeded patterns of the unrestricted space with long texts
    let long_texts = ["aaaaaaaaaaaaaaaaaaaaaaaa", "aaaaaaaaaaaaaaaaaaaaaaab", "ababababababababababababab", "aéaéaéaéaéaéaéaéaéaé😀", "a\na\na\naaaaaaaaaaaaaaaa"];
    let mut rng = Rng::new(ctx.seed ^ 0xEFF);
    for p in sample {
        if !p.refs_exist() || !rng.chance(1, ctx.tier.pick(6, 3)) {
            continue;
        }
        let depth = look_depth(p);
        for t in long_texts {
            items.push(Item { pattern: p.print(), text: t.to_string(), family: false, depth, rf: repeat_factor(p) });
        }
    }
    par_run(&items, false, Some(EFF_CAP), |_, it, acc| {
        for l in EFF_LIMITS {
            let Some(re) = build(&it.pattern, l) else {
                acc.count("efficacy:compile-err");
                return;
            };
            let Route::Vm { insns: prog_len, .. } = route(&re) else {
                acc.count("efficacy:wrapped");
                return;
            };
            acc.evals += 1;
            let _ = hook_take();
            let r = find_from(&re, &it.text, 0);
            let h = acc.take_hooks();
            uncounted(acc, &h, &it.pattern, &it.text, &format!("find (backtrack_limit {})", l));
            if !HOOKS {
                if r.is_panic() {
                    acc.violate(Violation::new("C07", "panic", &it.pattern, &it.text, 0, "find", "a value or Err".into(), r.show()));
                }
                continue;
            }
            let chars = it.text.chars().count() as f64 + 2.0;
            // per counted backtrack the VM may run forward over the text once per program
            // position (and once more per enclosing look-around, which rewinds the position)
            let k = if it.family { 8.0 * prog_len as f64 * chars } else { 64.0 * prog_len as f64 * chars.powi(1 + it.depth.min(3) as i32) * it.rf };
            let b = h.last_backtracks.min(l as u64 + 1);
            let bound = (b as f64 + 2.0) * k;
            acc.max(if it.family { "efficacy:family-steps/bound-ppm" } else { "efficacy:sample-steps/bound-ppm" }, (h.insns as f64 / bound * 1e6) as u64);
            acc.max("efficacy:steps-in-one-run", h.insns);
            if h.insns as f64 > bound {
                let mut v = Violation::new("C07", "limit-efficacy", &it.pattern, &it.text, 0, "find", format!("<= (min(B, L)+2)*K = {:.0} VM steps under backtrack_limit {} ({} backtracks counted)", bound, l, h.last_backtracks), format!("{} steps{}", h.insns, if r.is_step_cap() { " (step cap hit: the limit did not end the run)" } else { "" }));
                v.options = json!({"backtrack_limit": l});
                v.note = format!("K = {:.0}", k);
                acc.violate(v);
                if r.is_step_cap() {
                    return;
                }
                continue;
            }
            if r.is_step_cap() {
                acc.inconclusive += 1;
                return;
            }
            if r.is_panic() {
                acc.violate(Violation::new("C07", "panic", &it.pattern, &it.text, 0, "find", "a value or Err".into(), r.show()));
                continue;
            }
            if it.family {
                // none of the family patterns can match its text
                let ok = r == Got::Err(BT_ERR.into()) || r == Got::Val(None);
                if !ok {
                    let mut v = Violation::new("C07", "limit-semantics", &it.pattern, &it.text, 0, "find", "BacktrackLimitExceeded or no match".into(), r.show());
                    v.options = json!({"backtrack_limit": l});
                    acc.violate(v);
                }
                if r == Got::Err(BT_ERR.into()) {
                    acc.count("efficacy:family-runs-ended-by-the-limit");
                }
                acc.count("efficacy:family-runs");
            } else {
                if r == Got::Err(BT_ERR.into()) {
                    acc.count("efficacy:sample-runs-ended-by-the-limit");
                }
                acc.count("efficacy:sample-runs");
            }
        }
    })
}

/// Clause 3 on long texts: loops around a committing construct (look-around, atomic group,
/// condition) whose VM-compiled body can succeed in more than one way, in front of a tail that
/// fails. The reference commits, so its exploration is linear in the text; a construct that is
/// not committed in the VM re-runs the continuation per leftover alternative (k^n).
fn linear_families(_ctx: &Ctx) -> Acc {
    use crate::ast::{Mode, Node::*, A};
    let bx = |n: Node| Box::new(n);
    let la = || Node::lit("a");
    let amb: Vec<Node> = vec![
        Alt(vec![la(), Look(bx(Node::lit("b")), false, true)]),
        Alt(vec![la(), Assert(A::WordB), Assert(A::NotWordB)]),
        Alt(vec![Look(bx(la()), false, false), la()]),
        Alt(vec![Atomic(bx(la())), la()]),
        Concat(vec![Repeat(bx(la()), 0, Some(1), Mode::Greedy), Look(bx(Empty), false, false)]),
        Alt(vec![Node::group(la()), Concat(vec![Look(bx(Empty), false, false), Node::group(la())])]),
    ];
    let mut bodies: Vec<Node> = vec![];
    for x in &amb {
        bodies.push(Concat(vec![Look(bx(x.clone()), false, false), la()]));
        bodies.push(Concat(vec![la(), Look(bx(x.clone()), false, false)]));
        bodies.push(Concat(vec![Look(bx(Concat(vec![x.clone(), Node::lit("b")])), false, true), la()]));
        bodies.push(Atomic(bx(Concat(vec![x.clone(), Look(bx(Empty), false, false)]))));
        bodies.push(CondExpr(bx(x.clone()), bx(Empty), bx(la())));
    }
    // look-behinds need bodies of one length
    for x in [Alt(vec![la(), Concat(vec![Look(bx(Empty), false, false), la()])]), Alt(vec![Atomic(bx(la())), Any(false)]), Alt(vec![Concat(vec![Assert(A::NotWordB), la()]), Concat(vec![la(), Look(bx(Empty), false, false)]), Any(false)])] {
        bodies.push(Concat(vec![la(), Look(bx(x.clone()), true, false)]));
        bodies.push(Concat(vec![la(), Look(bx(Concat(vec![Node::lit("b"), x.clone()])), true, true)]));
    }
    let tails = [Node::lit("c"), Concat(vec![Assert(A::WordB), Node::lit("c")]), Concat(vec![Look(bx(la()), false, true), Node::lit("b")])];
    let mut items: Vec<(Node, String)> = vec![];
    for body in &bodies {
        for tail in &tails {
            for (lo, hi, m) in [(0, None, Mode::Greedy), (1, None, Mode::Lazy), (2, Some(40), Mode::Greedy)] {
                let p = Concat(vec![Repeat(bx(NonCap(bx(body.clone()))), lo, hi, m), tail.clone()]);
                for n in [20usize, 24] {
                    items.push((p.clone(), "a".repeat(n)));
                }
            }
        }
    }
    par_run(&items, false, Some(EFF_CAP), |_, (p, t), acc| {
        let s = p.print();
        let Got::Val(re) = compile(&s) else {
            acc.count("linear-families:compile-err");
            return;
        };
        let Some((r, ng)) = refm::compile(p) else {
            acc.count("linear-families:not-modelled");
            return;
        };
        let (o, rsteps) = refm::search(&r, ng, t, 0, false, 60_000);
        if o == refm::Out::Inconclusive {
            acc.count("linear-families:reference-not-tiny");
            return;
        }
        acc.evals += 1;
        let _ = hook_take();
        let a = find_from(&re, t, 0);
        let h = acc.take_hooks();
        acc.count("linear-families:runs");
        acc.max("linear-families:backtracks-in-one-run", h.last_backtracks);
        match &a {
            Got::Err(e) if e == BT_ERR || e == SO_ERR => {
                acc.violate(Violation::new("C07", "default-limits", &s, t, 0, "find", format!("no limit error (reference explores the case in {} steps)", rsteps), a.show()));
            }
            Got::StepCap => {
                acc.violate(Violation::new("C07", "default-limits", &s, t, 0, "find", format!("an answer (reference explores the case in {} steps)", rsteps), format!("step cap of {} hit", EFF_CAP)));
            }
            Got::Panic(_) => acc.violate(Violation::new("C07", "panic", &s, t, 0, "find", "a value or Err".into(), a.show())),
            _ => {}
        }
    })
}

fn look_depth(p: &Node) -> u32 {
    let below = p.children().iter().map(|c| look_depth(c)).max().unwrap_or(0);
    below + if matches!(p, Node::Look(..) | Node::CondExpr(..)) { 1 } else { 0 }
}

fn build(s: &str, l: usize) -> Option<Regex> {
    compile_with(s, |b| {
        b.backtrack_limit(l);
    })
    .val()
    .cloned()
}

pub fn run(ctx: &Ctx) -> Outcome {
    let sp = spaces::unrestricted(ctx.tier, ctx.seed ^ 7, 3, 4, 20_000, 80_000);
    let mut patterns = sp.patterns;
    if ctx.tier == Tier::Quick {
        // a seeded sample of the 4-node trees
        let mut rng = Rng::new(ctx.seed ^ 0x707);
        let mut g = crate::gen::Gen::new(true);
        g.contg = true;
        patterns.extend(g.of_size(4).into_iter().filter(|_| rng.chance(1, 12)));
    }
    // counted repeats of nullable bodies with larger bounds: every empty iteration leaves one more
    // branch with the same (pc, ix) behind, the searches themselves are tiny
    {
        use crate::ast::{Mode, Node::*};
        let bx = |n: Node| Box::new(n);
        let opt = |m: Mode| Repeat(bx(Node::lit("a")), 0, Some(1), m);
        for n in [16u32, 48, 64, 100, 200] {
            patterns.push(Concat(vec![Repeat(bx(opt(Mode::Greedy)), 0, Some(n), Mode::Greedy), Look(bx(Empty), false, false)]));
            patterns.push(Concat(vec![Repeat(bx(opt(Mode::Lazy)), 1, Some(n), Mode::Greedy), Assert(crate::ast::A::WordB)]));
            patterns.push(Concat(vec![Node::group(Repeat(bx(opt(Mode::Greedy)), n, Some(n), Mode::Greedy)), Repeat(bx(Backref(1)), 0, Some(1), Mode::Greedy)]));
            patterns.push(Atomic(bx(Repeat(bx(Alt(vec![Node::lit("a"), Empty])), 0, Some(n), Mode::Lazy))));
        }
        for (a, b2, c) in [(8u32, 8u32, 1u32), (4, 4, 4), (6, 6, 2)] {
            let inner = Repeat(bx(opt(Mode::Greedy)), a, Some(a), Mode::Greedy);
            let mid = Repeat(bx(inner), b2, Some(b2), Mode::Greedy);
            patterns.push(Concat(vec![Repeat(bx(mid), c, Some(c), Mode::Greedy), Assert(crate::ast::A::WordB)]));
        }
    }
    let texts = spaces::texts_mb(ctx.tier.pick(3, 3));
    let acc = par_run(&patterns, false, Some(STEP_CAP), |_, p, acc| {
        if !p.refs_exist() {
            return;
        }
        let s = p.print();
        let re = match compile(&s) {
            Got::Val(r) => r,
            Got::Err(_) => {
                acc.count("compile-err");
                return;
            }
            o => {
                acc.violate(Violation::new("C07", "compile-panic", &s, "", 0, "Regex::new", "Ok or Err".into(), o.show()));
                return;
            }
        };
        let rt = route(&re);
        let Route::Vm { insns: prog_len, .. } = rt else {
            acc.count("route:wrapped (no VM limits apply; result-only checks)");
            // limits must not change results on the wrapped route either
            if let Some(re0) = build(&s, 0) {
                for t in texts.iter().take(40) {
                    acc.evals += 1;
                    let a = find_from(&re, t, 0);
                    let b = find_from(&re0, t, 0);
                    if a != b {
                        let mut v = Violation::new("C07", "limit-semantics", &s, t, 0, "find", a.show(), b.show());
                        v.options = json!({"backtrack_limit": 0, "route": "wrapped"});
                        acc.violate(v);
                    }
                }
            }
            return;
        };
        acc.count("route:vm");
        let limited: Vec<(usize, Regex)> = LIMITS.iter().filter_map(|&l| build(&s, l).map(|r| (l, r))).collect();
        let rfm = refm::compile(p);
        let k_factor = 256.0 * prog_len as f64 * repeat_factor(p);
        let mut exact: BTreeMap<u64, Option<Regex>> = BTreeMap::new();
        let _ = hook_take();
        let mut both_sides = false;
        let mut cap_hits = 0;
        for t in &texts {
            acc.evals += 1;
            let a = find_from(&re, t, 0);
            let h = acc.take_hooks();
            let (b, steps) = (h.last_backtracks, h.insns);
            uncounted(acc, &h, &s, t, "find (default limit)");
            let k = k_factor * (t.chars().count() as f64 + 2.0);
            let bound = (b as f64 + 1.0) * k;
            if HOOKS {
                let ratio = steps as f64 / bound;
                acc.max("steps/bound-ppm", (ratio * 1e6) as u64);
                acc.max("steps-in-one-run", steps);
                acc.max("backtracks-in-one-run", b);
                if steps as f64 > bound {
                    let mut v = Violation::new("C07", "step-bound", &s, t, 0, "find", format!("<= (B+1)*K = {:.0} VM steps (B = {} backtracks)", bound, b), format!("{} steps{}", steps, if a.is_step_cap() { " (step cap hit: run did not end)" } else { "" }));
                    v.note = "K = 256 * |prog| * (chars+2) * prod(1+count)".into();
                    acc.violate(v);
                    if a.is_step_cap() {
                        cap_hits += 1;
                        if cap_hits >= 2 {
                            acc.count("patterns-abandoned-after-2-step-cap-hits");
                            return;
                        }
                    }
                    continue;
                }
            }
            if a.is_step_cap() {
                acc.inconclusive += 1;
                cap_hits += 1;
                if cap_hits >= 2 {
                    acc.count("patterns-abandoned-after-2-step-cap-hits");
                    return;
                }
                continue;
            }
            if a.is_panic() {
                acc.violate(Violation::new("C07", "panic", &s, t, 0, "find", "a value or Err".into(), a.show()));
                continue;
            }
            acc.add("backtracks-observed", b);
            // clause 3: tiny reference exploration => no limit error under default limits
            if let Some((r, ng)) = &rfm {
                let (o, rsteps) = refm::search(r, *ng, t, 0, false, 5_000);
                if o != refm::Out::Inconclusive {
                    acc.count("tiny-reference-cases");
                    if let Got::Err(e) = &a {
                        if e == BT_ERR || e == SO_ERR {
                            acc.violate(Violation::new("C07", "default-limits", &s, t, 0, "find", format!("no limit error (reference explores the case in {} steps)", rsteps), a.show()));
                        }
                    }
                }
            }
            // clause 1: limits
            let check = |acc: &mut Acc, l: usize, lre: &Regex| -> bool {
                let r = find_from(lre, t, 0);
                let hl = acc.take_hooks();
                uncounted(acc, &hl, &s, t, &format!("find (backtrack_limit {})", l));
                // without hooks the number of backtracks needed is unknown: only "limit error or the
                // same answer" can be judged per limit (monotonicity is checked over the limit list)
                let ok = if HOOKS && (l as u64) >= b { r == a } else { r == a || r == Got::Err(BT_ERR.into()) };
                if !ok {
                    let mut v = Violation::new("C07", "limit-semantics", &s, t, 0, "find", if (l as u64) >= b { format!("{} (limit {} >= {} backtracks needed)", a.show(), l, b) } else { format!("BacktrackLimitExceeded or {}", a.show()) }, r.show());
                    v.options = json!({"backtrack_limit": l, "backtracks_needed": b});
                    acc.violate(v);
                }
                // the limit governs every entry point alike: captures and is_match run the same program
                let rc = captures_from(lre, t, 0).map(|c| c.as_ref().map(|c| c[0].unwrap_or((usize::MAX, usize::MAX))));
                let ri = is_match(lre, t);
                let _ = acc.take_hooks();
                if rc != r || ri != r.map(|o| o.is_some()) {
                    let mut v = Violation::new("C07", "limit-semantics", &s, t, 0, "captures / is_match vs find under the same limit", r.show(), format!("captures: {}, is_match: {}", rc.show(), ri.show()));
                    v.options = json!({"backtrack_limit": l, "backtracks_needed": b});
                    acc.violate(v);
                }
                matches!(r, Got::Err(_)) && r != a
            };
            let mut below = false;
            let mut above = false;
            let mut answered_at: Option<usize> = None;
            for (l, lre) in &limited {
                let errored = check(acc, *l, lre);
                below |= errored;
                above |= (*l as u64) >= b;
                // monotone in the limit: once a limit suffices, every larger one does
                if !errored && answered_at.is_none() {
                    answered_at = Some(*l);
                }
                if let (true, Some(l0)) = (errored, answered_at) {
                    let mut v = Violation::new("C07", "limit-semantics", &s, t, 0, "find", format!("the answer, as with the smaller limit {}", l0), "BacktrackLimitExceeded".into());
                    v.options = json!({"backtrack_limit": l});
                    acc.violate(v);
                }
            }
            // the exact threshold, read through the hook: L = B must succeed, L = B-1 may fail
            if HOOKS && b >= 1 && b < 100_000 && (exact.len() < 6 || exact.contains_key(&b)) {
                for l in [b, b - 1] {
                    let e = exact.entry(l).or_insert_with(|| build(&s, l as usize));
                    if let Some(lre) = e.clone() {
                        let errored = check(acc, l as usize, &lre);
                        if l == b - 1 && errored {
                            acc.count("exact-threshold-cases");
                        }
                        below |= errored;
                    }
                }
            }
            both_sides |= (b >= 1 || !HOOKS) && below && above;
        }
        if both_sides {
            acc.distinct += 1;
            acc.sample(2, || json!({"pattern": s, "prog_len": prog_len}));
        }
    });
    let mut acc = acc;
    let n_fam = families().len();
    acc.merge(efficacy(ctx, &patterns));
    acc.merge(linear_families(ctx));
    let mut out = Outcome::new(acc);
    out.distinct_nontrivial = out.acc.distinct;
    out.rule = format!("{}{}; x all {} texts over 1-4 byte characters up to length 3. Per (pattern, text): run with the default limit, read backtracks B / VM steps S through the hook, then (1) for L in {{0,1,2,3,5,10,100,10^6,2^32,2^32+7,usize::MAX}} and the exact thresholds L = B and L = B-1: L >= B => same answer, L < B => BacktrackLimitExceeded or the same answer; (2) S <= (B+1)*256*|prog|*(chars+2)*prod(1+count), enforced online by a VM step cap of {} so a non-terminating run is observed as a cap hit; (3) if the reference explores the case within 5000 steps the default-limit run must not report StackOverflow / BacktrackLimitExceeded. (4) hook invariant on every run: no alternative is resumed without having been counted against the limit; (5) limit efficacy on long texts: {} catastrophic family patterns (ambiguous cores (?:a|aa){{n}}, (?:a(?=)|a){{n}}, split and lazy counted variants, n = 18 / 22, x 16 tails that fail through a different instruction each: negative / positive look-ahead and look-behind, literal, class delegate, \\b, $, \\z, atomic group, unset backreference, group condition, \\G) on a^(2n+3), and a seeded sample of the space on 5 texts of 20-26 characters, each under backtrack limits 100 and 5000: the run must end with BacktrackLimitExceeded or the answer after <= (min(B, L)+2)*K steps (families: K = 8*|prog|*(chars+2); sample: K = 64*|prog|*(chars+2)^(1+look-around depth)*prod(1+count)), step cap {}. (6) clause 3 on long texts: loops ((*, +?, {{2,40}}) around a committing construct (look-ahead / look-behind, positive and negative, atomic group, condition) whose VM-compiled body can succeed in more than one way, in front of 3 failing tails, on a^20 and a^24 under the default limits: no limit error where the reference (which commits) explores the case within 60000 steps. Non-trivial: distinct VM patterns with B >= 1 on some text for which limits fell on both sides of B.", sp.describe, if ctx.tier == Tier::Quick { " + a seeded twelfth of the 4-node trees" } else { "" }, texts.len(), STEP_CAP, n_fam, EFF_CAP);
    out.assumptions = vec!["the step bound K is a calibrated constant with >= two orders of magnitude of slack over every legitimate run observed (maxima.steps/bound-ppm reports how close this run came, in millionths)".into()];
    let et = out.acc.get("exact-threshold-cases");
    let vm = out.acc.get("route:vm");
    out.extra = json!({"exact_threshold_cases": et, "limits": LIMITS, "efficacy": {"family_patterns": n_fam, "limits": EFF_LIMITS,
        "family_runs": out.acc.get("efficacy:family-runs"), "family_runs_ended_by_the_limit": out.acc.get("efficacy:family-runs-ended-by-the-limit"),
        "sample_runs": out.acc.get("efficacy:sample-runs"), "sample_runs_ended_by_the_limit": out.acc.get("efficacy:sample-runs-ended-by-the-limit")}});
    out.require(vm > 0, "no VM-route pattern");
    let (fr, fl) = (out.acc.get("efficacy:family-runs"), out.acc.get("efficacy:family-runs-ended-by-the-limit"));
    out.require(!HOOKS || (fr > 0 && fl * 2 > fr), "the catastrophic families were not ended by the backtrack limit often enough to say anything");
    out.require(!HOOKS || et > 0, "the exact threshold L = B-1 was never observed to fail");
    out.require(out.acc.get("linear-families:runs") > 100, "the linear families on long texts were not exercised");
    out
}
