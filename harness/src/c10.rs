//! C10 — split and splitn partition the text around the find_iter matches.
//! Oracle = the crate's own find_iter on the same input (that is what the statement defines).
use crate::common::*;
use crate::diff;
use crate::refm;
use crate::spaces;
use crate::sweep::{sweep, Case, SweepCfg};
use serde_json::json;

fn collect<'h>(it: impl Iterator<Item = fancy_regex::Result<&'h str>>, max: usize) -> Vec<Result<&'h str, String>> {
    it.take(max).map(|r| r.map_err(|e| err_kind(&e))).collect()
}

pub fn run(ctx: &Ctx) -> Outcome {
    let sp = spaces::c01_space(ctx.tier, ctx.seed ^ 10, false, 3, 4, 2, 2, 8_000, 40_000);
    let un = spaces::unrestricted(ctx.tier, ctx.seed ^ 10, 3, 3, 4_000, 20_000);
    let mut patterns = sp.patterns;
    patterns.extend(un.patterns);
    let texts = spaces::texts_c01(ctx.tier.pick(3, 4));
    let texts_up: Vec<String> = { let mut v: Vec<String> = texts.iter().map(|t| t.to_uppercase()).collect(); v.sort(); v.dedup(); v };
    let cfg = SweepCfg { prop: "C10", backtrack_limit: Some(20_000), step_cap: Some(3_000_000), shadow: false, casei_every: 2 };
    let acc = sweep(&cfg, &patterns, |c: &Case<'_>, acc| {
        let re = c.re;
        let mut nontrivial = false;
        // second, independent statement of "the matches": the iteration model driven by the
        // reference matcher (a change that moves find_iter and split together is invisible to
        // the comparison of the two)
        let rfm = if c.casei { None } else if diff::default_exclude(c.node).is_none() && !c.node.has_f1() && !c.node.has_keepout_in_lookbehind() { refm::compile(c.node) } else { None };
        let fj_listed = ctx.known.listed("C15", "FJ");
        for t in if c.casei { &texts_up } else { &texts } {
            if let Some((r, ng)) = &rfm {
                let bound = t.chars().count() + 4;
                if let Some(ms) = refm::iterate(r, *ng, t, refm::BUDGET, bound) {
                    let mut want: Vec<Result<&str, String>> = vec![];
                    let mut last = 0;
                    for m in &ms {
                        let (a, b) = m[0].unwrap();
                        want.push(Ok(&t[last..a]));
                        last = b;
                    }
                    want.push(Ok(&t[last..]));
                    let _ = acc.take_hooks();
                    let got = guard_plain(|| collect(re.split(t), bound + 3));
                    let h = acc.take_hooks();
                    match got {
                        Got::Val(g) if g == want => acc.count("split-compared-with-reference-matches"),
                        Got::Val(g) if g.iter().any(|x| x.is_err()) => {}
                        Got::Val(g) => {
                            if h.aux_mismatch > 0 && fj_listed && c.node.has_cond() {
                                acc.count("reference-partition:attributed-to-FJ");
                            } else {
                                acc.violate(Violation::new("C10", "reference-partition", c.pattern, t, 0, "split", format!("{:?} (gaps between the matches of the reference iteration)", want), format!("{:?}", g)));
                            }
                        }
                        _ => {}
                    }
                }
            }
            acc.evals += 1;
            let bound = t.chars().count() + 4;
            let r = guard_plain(|| -> Result<bool, (String, String, String)> {
                let ms: Vec<Result<(usize, usize), String>> = re.find_iter(t).take(bound).map(|m| m.map(|m| span_of(&m)).map_err(|e| err_kind(&e))).collect();
                if ms.iter().any(|m| m.is_err()) {
                    // error history: split must surface an Err, not panic (drive it to exhaustion)
                    let _ = collect(re.split(t), bound + 2);
                    for n in 0..4 {
                        let _ = collect(re.splitn(t, n), bound + 2);
                    }
                    return Ok(false);
                }
                let ms: Vec<(usize, usize)> = ms.into_iter().map(|m| m.unwrap()).collect();
                let mut want: Vec<&str> = vec![];
                let mut last = 0;
                for &(a, b) in &ms {
                    if a < last {
                        // overlapping matches (finding FK territory, judged by C08): no partition exists
                        return Ok(false);
                    }
                    want.push(&t[last..a]);
                    last = b;
                }
                want.push(&t[last..]);
                let got = collect(re.split(t), bound + 3);
                let wantr: Vec<Result<&str, String>> = want.iter().map(|s| Ok(*s)).collect();
                if got != wantr {
                    return Err(("split".into(), format!("{:?} (matches {:?})", want, ms), format!("{:?}", got)));
                }
                // interleaving rebuilds the input
                let mut rebuilt = String::new();
                for (i, piece) in want.iter().enumerate() {
                    rebuilt.push_str(piece);
                    if let Some(&(a, b)) = ms.get(i) {
                        rebuilt.push_str(&t[a..b]);
                    }
                }
                if rebuilt != *t || want.len() != ms.len() + 1 {
                    return Err(("split".into(), format!("pieces interleaved with matches rebuild {:?}", t), format!("{:?}", rebuilt)));
                }
                for n in 0..6usize {
                    let got = collect(re.splitn(t, n), bound + 3);
                    let mut w: Vec<&str> = vec![];
                    if n > 0 {
                        if n > want.len() {
                            w = want.clone();
                        } else {
                            w.extend(&want[..n - 1]);
                            let start = if n == 1 { 0 } else { ms[n - 2].1 };
                            w.push(&t[start..]);
                        }
                    }
                    let wr: Vec<Result<&str, String>> = w.iter().map(|s| Ok(*s)).collect();
                    if got != wr {
                        return Err((format!("splitn({})", n), format!("{:?} (matches {:?})", w, ms), format!("{:?}", got)));
                    }
                }
                // histories: a fresh iterator advanced k times yields the prefix of length k
                for k in 0..=want.len() + 1 {
                    let mut it = re.split(t);
                    let mut seen = vec![];
                    for _ in 0..k {
                        match it.next() {
                            Some(Ok(s)) => seen.push(s),
                            Some(Err(_)) => break,
                            None => break,
                        }
                    }
                    let expect = &want[..k.min(want.len())];
                    if seen != expect {
                        return Err((format!("split advanced {} times", k), format!("{:?}", expect), format!("{:?}", seen)));
                    }
                }
                Ok(ms.iter().any(|(a, b)| a == b) || ms.iter().any(|(a, b)| t[*a..*b].len() > t[*a..*b].chars().count()) || want.len() >= 3)
            });
            match r {
                Got::Val(Ok(nt)) => nontrivial |= nt,
                Got::Val(Err((api, want, got))) => acc.violate(Violation::new("C10", "partition", c.pattern, t, 0, &api, want, got)),
                Got::StepCap => acc.inconclusive += 1,
                o => acc.violate(Violation::new("C10", "panic", c.pattern, t, 0, "split/splitn", "pieces".into(), o.show())),
            }
        }
        if nontrivial {
            acc.distinct += 1;
            acc.count(if c.route.is_vm() { "nontrivial:vm" } else { "nontrivial:wrapped" });
            acc.sample(2, || json!({"pattern": c.pattern}));
        }
    });
    let mut out = Outcome::new(acc);
    out.distinct_nontrivial = out.acc.distinct;
    out.rule = format!("patterns: [{}] and [{}] (F1-class patterns included: no reference semantics is needed); x all {} texts over {{a,b,c,é,\\n,-}} up to length {}; split = gaps between consecutive find_iter matches, #pieces = #matches + 1, interleaving rebuilds the text byte for byte; splitn(t, n) for n in 0..5; every prefix of next() calls on a fresh iterator; every second pattern is also built with RegexBuilder::case_insensitive(true) and run on the upper-cased texts; for the patterns with reference semantics split must also equal the gaps between the matches of the reference iteration model. Non-trivial: distinct patterns with an empty match, a multi-byte match or >= 3 pieces on some text.", sp.describe, un.describe, texts.len(), ctx.tier.pick(3, 4));
    out.assumptions = vec!["find_iter itself is judged by C08; sequences with overlapping matches (finding FK) have no partition and are skipped".into()];
    let (vm, wr) = (out.acc.get("nontrivial:vm"), out.acc.get("nontrivial:wrapped"));
    out.extra = json!({"nontrivial_patterns": {"vm": vm, "wrapped": wr}});
    out.require(vm > 0 && wr > 0, "both routes must be exercised");
    out
}
