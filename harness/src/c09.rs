//! C09 — the search entry points are mutually coherent (metamorphic, no reference).
use crate::common::*;
use crate::gen;
use crate::spaces;
use crate::sweep::{sweep, Case, SweepCfg};
use serde_json::json;

pub fn run(ctx: &Ctx) -> Outcome {
    let sp = spaces::unrestricted(ctx.tier, ctx.seed ^ 9, 4, 4, 8_000, 80_000);
    let mut patterns = sp.patterns;
    // \G / \K variants of the small trees: the skipped-empty-match flag matters only for them
    let small: Vec<_> = patterns.iter().filter(|p| p.size() <= 3).cloned().collect();
    {
        // quick: a seeded half of the variants (every context keeps dozens of fillers)
        let (tier, seed) = (ctx.tier, ctx.seed as usize);
        patterns.extend(gen::g_contexts(&small).into_iter().enumerate().filter(|(i, _)| tier == Tier::Thorough || (i / 15 + seed) % 2 == 0).map(|(_, p)| p));
    }
    let texts = spaces::texts_mb(ctx.tier.pick(3, 4));
    // case-insensitive literals whose case fold has another UTF-8 length (ſ/s, K(kelvin)/k, ẞ/ß):
    // any entry point that reasons about byte lengths of the pattern must still agree with the
    // others. Small contexts around (?i:<special>), run on texts over the folded characters.
    let ci_patterns: Vec<crate::ast::Node> = {
        use crate::ast::{Mode, Node::*};
        let bx = |n: crate::ast::Node| Box::new(n);
        let mut v = vec![];
        for sp in ["ſ", "\u{212a}", "ẞ", "ſſ", "s", "k"] {
            let ci = || Flags("i".into(), "".into(), Some(bx(crate::ast::Node::lit(sp))));
            v.push(Atomic(bx(ci())));
            v.push(Concat(vec![Assert(crate::ast::A::WordB), ci()]));
            v.push(Concat(vec![Look(bx(ci()), false, false), Any(false)]));
            v.push(Concat(vec![crate::ast::Node::group(ci()), Repeat(bx(Backref(1)), 0, Some(1), Mode::Greedy)]));
            v.push(Concat(vec![Look(bx(crate::ast::Node::lit("x")), false, true), ci(), ci()]));
            v.push(Repeat(bx(Concat(vec![ci(), Look(bx(Empty), false, false)])), 1, Some(2), Mode::Greedy));
        }
        v
    };
    let ci_texts = gen::texts(&["s", "ſ", "k", "\u{212a}", "ß", "S"], 3);
    let n_ci = ci_patterns.len();
    let texts_up: Vec<String> = { let mut v: Vec<String> = texts.iter().map(|t| t.to_uppercase()).collect(); v.sort(); v.dedup(); v };
    let cfg = SweepCfg { prop: "C09", backtrack_limit: Some(20_000), step_cap: Some(3_000_000), shadow: true, casei_every: 3 };
    let first_ci = patterns.len();
    patterns.extend(ci_patterns);
    let acc = sweep(&cfg, &patterns, |c: &Case<'_>, acc| {
        let re = c.re;
        let mut any = false;
        for t in if c.index >= first_ci { &ci_texts } else if c.casei { &texts_up } else { &texts } {
            acc.evals += 1;
            let mut bad = |acc: &mut Acc, api: &str, from: usize, want: String, got: String| {
                acc.violate(Violation::new("C09", "coherence", c.pattern, t, from, api, want, got));
            };
            let im = is_match(re, t);
            let f = find_from(re, t, 0);
            let f2 = guard(|| Ok(re.find(t)?.map(|m| span_of(&m))));
            let cp = guard(|| Ok(re.captures(t)?.map(|c| caps_of(&c))));
            // the accessors of one Match / Captures tell one story: start/end = range, as_str = the slice
            let acc_bad = guard(|| {
                let mut bad: Option<String> = None;
                if let Some(m) = re.find(t)? {
                    if m.range() != (m.start()..m.end()) || t.get(m.range()) != Some(m.as_str()) {
                        bad = Some(format!("Match: start {} end {} range {:?} as_str {:?}", m.start(), m.end(), m.range(), m.as_str()));
                    }
                }
                if let Some(c) = re.captures(t)? {
                    for i in 0..c.len() {
                        if let Some(m) = c.get(i) {
                            if m.range() != (m.start()..m.end()) || t.get(m.range()) != Some(m.as_str()) {
                                bad = Some(format!("Captures::get({}): start {} end {} range {:?} as_str {:?}", i, m.start(), m.end(), m.range(), m.as_str()));
                            }
                        }
                    }
                }
                Ok(bad)
            });
            if let Got::Val(Some(what)) = acc_bad {
                acc.violate(Violation::new("C09", "coherence", c.pattern, t, 0, "Match accessors", "range() = start()..end() and as_str() = the text in that range".into(), what));
            }
            if [&f, &f2].iter().any(|g| matches!(g, Got::StepCap)) || matches!(im, Got::StepCap) || matches!(cp, Got::StepCap) {
                acc.inconclusive += 1;
                continue;
            }
            if f != f2 {
                bad(acc, "find vs find_from_pos(0)", 0, f.show(), f2.show());
            }
            // is_match <=> find.is_some <=> captures.is_some (an Err must be the same Err)
            let fm = f.map(|o| o.is_some());
            if im != fm {
                bad(acc, "is_match vs find", 0, fm.show(), im.show());
            }
            let c0 = cp.map(|o| o.as_ref().map(|c| c[0]));
            let fwrap = f.map(|o| o.map(Some));
            if c0 != fwrap {
                bad(acc, "captures.get(0) vs find", 0, fwrap.show(), c0.show());
            }
            any |= matches!(f, Got::Val(Some(_)));
            for from in gen::offsets(t) {
                let ff = find_from(re, t, from);
                let cf = captures_from(re, t, from);
                if matches!(ff, Got::StepCap) || matches!(cf, Got::StepCap) {
                    acc.inconclusive += 1;
                    continue;
                }
                let c0 = cf.map(|o| o.as_ref().map(|c| c[0]));
                let fw = ff.map(|o| o.map(Some));
                if c0 != fw {
                    bad(acc, "captures_from_pos.get(0) vs find_from_pos", from, fw.show(), c0.show());
                }
            }
            let bound = t.chars().count() + 4;
            let fi = find_iter_seq(re, t, bound);
            let ci = captures_iter_seq(re, t, bound);
            match (&fi, &ci) {
                (Got::Val(a), Got::Val(b)) => {
                    let b0: Vec<Result<(usize, usize), String>> = b.iter().map(|r| r.clone().map(|c| c[0].unwrap_or((usize::MAX, usize::MAX)))).collect();
                    if *a != b0 {
                        bad(acc, "captures_iter spans vs find_iter", 0, format!("{:?}", a), format!("{:?}", b0));
                    }
                    if a.len() >= 2 {
                        acc.count("sequences-with->=2-items");
                    }
                    if let Some(Ok(first)) = a.first() {
                        if f != Got::Val(Some(*first)) {
                            bad(acc, "find vs first find_iter item", 0, format!("{:?}", first), f.show());
                        }
                    }
                }
                (Got::StepCap, _) | (_, Got::StepCap) => acc.inconclusive += 1,
                _ => bad(acc, "find_iter / captures_iter", 0, fi.show(), ci.show()),
            }
        }
        if any {
            acc.distinct += 1;
            acc.count(if c.route.is_vm() { "matched:vm" } else { "matched:wrapped" });
            acc.sample(2, || json!({"pattern": c.pattern, "route": if c.route.is_vm() {"vm"} else {"wrapped"}}));
        }
    });
    let mut out = Outcome::new(acc);
    out.distinct_nontrivial = out.acc.distinct;
    out.rule = format!("{} + \\G / \\K variants (\\GX, (?:\\G|a)X, X\\Kb, (?:X\\K)?b) of the trees of <= 3 nodes; x all {} texts over 1-4 byte characters up to length {} x every char-boundary offset; plus {} case-insensitive patterns around literals whose case fold has a different UTF-8 length (ſ, KELVIN SIGN, ẞ) on texts over {{s,ſ,k,K,ß,S}}. Checked: is_match <=> find.is_some <=> captures.is_some, captures.get(0) = find, captures_from_pos(t,p).get(0) = find_from_pos(t,p), captures_iter spans = find_iter spans as whole sequences (including where an Err appears), find = first find_iter item. Non-trivial: distinct patterns with >= 1 match (both routes required).", sp.describe, texts.len(), ctx.tier.pick(3, 4), n_ci);
    let (vm, wr) = (out.acc.get("matched:vm"), out.acc.get("matched:wrapped"));
    out.extra = json!({"matched_patterns": {"vm": vm, "wrapped": wr}});
    out.require(vm > 0 && wr > 0, "both routes must produce matches");
    let (inc, ev) = (out.acc.inconclusive, out.acc.evals);
    out.require(inc * 20 <= ev, "too many step-cap hits");
    out
}
