//! C14 — builder options act the same on fancy and plain patterns (metamorphic; the automata
//! engine itself is the oracle for "exceeds the size limit").
use crate::ast::{Mode, Node, Node::*, A};
use crate::common::*;
use crate::gen::{self, Gen};
use fancy_regex::RegexBuilder;
use regex_automata::meta;
use serde_json::json;

fn atoms() -> Vec<Node> {
    vec![
        Node::lit("a"),
        Node::lit("A"),
        Node::lit("b"),
        Any(false),
        Node::class("[ab]"),
        Node::class("[^a]"),
        Node::class("[A-B]"),
        Assert(A::StartText),
        Assert(A::WordB),
        Backref(1),
        Flags("".into(), "i".into(), Some(Box::new(Node::lit("a")))),
        Flags("i".into(), "".into(), Some(Box::new(Node::lit("b")))),
        Empty,
    ]
}
fn reps() -> Vec<(u32, Option<u32>, Mode)> {
    vec![(0, Some(1), Mode::Greedy), (0, None, Mode::Greedy), (1, None, Mode::Lazy), (2, Some(2), Mode::Greedy), (0, None, Mode::Poss)]
}

/// Simple case folding orbits with more than two members or members of different UTF-8 length
/// (written from the Unicode tables, independent of the crate).
pub fn orbit(c: char) -> Option<&'static str> {
    ["kK\u{212a}", "sS\u{17f}", "\u{1c4}\u{1c5}\u{1c6}", "\u{df}\u{1e9e}", "\u{e9}\u{c9}"].into_iter().find(|o| o.contains(c))
}

/// Case-insensitivity spelled out: every literal / class inside an active `i` scope is replaced by
/// a class that lists both cases and the flag groups are dropped - an independent statement of what
/// `(?i)P` means for the atoms of this space. None if the tree has an atom the table does not know.
pub fn desugar(n: &Node, active: bool) -> Option<Node> {
    let bx = |n: Node| Box::new(n);
    Some(match n {
        Lit(l) if active => {
            let mut v = vec![];
            for c in l.chars() {
                if let Some(o) = orbit(c) {
                    v.push(Node::class(&format!("[{}]", o)));
                } else if c.is_ascii_alphabetic() {
                    v.push(Node::class(&format!("[{}{}]", c.to_ascii_lowercase(), c.to_ascii_uppercase())));
                } else if c.to_lowercase().to_string() == c.to_uppercase().to_string() {
                    v.push(Node::lit(&c.to_string()));
                } else {
                    return None;
                }
            }
            if v.len() == 1 {
                v.pop().unwrap()
            } else {
                Concat(v)
            }
        }
        Class(c) if active => Node::class(match c.as_str() {
            "[ab]" => "[abAB]",
            "[^a]" => "[^aA]",
            "[A-B]" => "[A-Ba-b]",
            "\\w" => "\\w",
            _ => return None,
        }),
        Flags(on, off, Some(body)) => {
            let act = if on.contains('i') { true } else if off.contains('i') { false } else { active };
            if !on.chars().all(|c| c == 'i') || !off.chars().all(|c| c == 'i') {
                return None;
            }
            NonCap(bx(desugar(body, act)?))
        }
        Flags(..) | Raw(_) => return None,
        Concat(v) => Concat(v.iter().map(|c| desugar(c, active)).collect::<Option<Vec<_>>>()?),
        Alt(v) => Alt(v.iter().map(|c| desugar(c, active)).collect::<Option<Vec<_>>>()?),
        Group(nm, c) => Group(nm.clone(), bx(desugar(c, active)?)),
        NonCap(c) => NonCap(bx(desugar(c, active)?)),
        Atomic(c) => Atomic(bx(desugar(c, active)?)),
        Repeat(c, lo, hi, m) => Repeat(bx(desugar(c, active)?), *lo, *hi, *m),
        Look(c, bh, ng) => Look(bx(desugar(c, active)?), *bh, *ng),
        CondGroup(i, y, no) => CondGroup(*i, bx(desugar(y, active)?), bx(desugar(no, active)?)),
        CondExpr(c, y, no) => CondExpr(bx(desugar(c, active)?), bx(desugar(y, active)?), bx(desugar(no, active)?)),
        other => other.clone(),
    })
}

/// does regex-automata itself reject this piece under the given NFA size limit?
fn ra_rejects(piece: &str, limit: usize) -> Option<bool> {
    let cfg = meta::Config::new().nfa_size_limit(Some(limit));
    match meta::Builder::new().configure(cfg).build(piece) {
        Ok(_) => Some(false),
        Err(e) => {
            if e.size_limit().is_some() {
                Some(true)
            } else {
                None // a syntax error etc.: no verdict
            }
        }
    }
}

pub fn run(ctx: &Ctx) -> Outcome {
    let mut g = Gen::with_atoms(atoms(), reps(), false, true);
    let mut patterns = g.upto(4);
    if ctx.tier == Tier::Thorough {
        let mut rng = crate::rng::Rng::new(ctx.seed ^ 0xC14);
        patterns.extend(g.of_size(5).into_iter().filter(|_| rng.chance(1, 6)));
    }
    patterns.extend(gen::products(&g.upto(1)));
    // bigger delegated pieces for the size limits
    let bx = |n: Node| Box::new(n);
    let big = |n: u32| Repeat(bx(Node::class("\\w")), n, Some(n), Mode::Greedy);
    // pieces that exceed the engine's DEFAULT size limit: no neutral option may make them build
    for n in [300u32, 600] {
        patterns.push(big(n));
        patterns.push(Concat(vec![big(n), Look(bx(Node::lit(";")), false, false)]));
        patterns.push(Concat(vec![Node::group(big(n)), Backref(1)]));
    }
    for n in [5u32, 20, 60] {
        patterns.push(big(n));
        patterns.push(Concat(vec![big(n), Look(bx(Node::lit("a")), false, false)]));
        patterns.push(Concat(vec![Look(bx(Node::lit("a")), true, false), big(n), Assert(A::WordB), big(n / 2 + 1)]));
        patterns.push(Concat(vec![Node::group(big(n)), Backref(1)]));
        patterns.push(Atomic(bx(Alt(vec![big(n), Node::lit("ab")]))));
    }
    // one delegated run made of MANY adjacent easy pieces: the limit applies to the run as a whole
    // (each child is far below a limit that the run exceeds many times over)
    for k in [2u32, 6, 12] {
        let mut v = vec![Look(bx(Node::class("[ab]")), false, false)];
        for i in 0..32 {
            v.push(Repeat(bx(Node::class(if i % 2 == 0 { "[ab]" } else { "[A-B]" })), k, Some(k), Mode::Greedy));
        }
        patterns.push(Concat(v.clone()));
        v.push(Assert(A::WordB));
        patterns.push(Concat(v));
    }
    let texts = gen::texts(&["a", "A", "b", "B"], ctx.tier.pick(3, 3));
    let mut text_sets = vec![texts.clone()];
    let mut items: Vec<(Node, usize)> = patterns.into_iter().map(|p| (p, 0)).collect();
    // letters whose case orbit has three members or members of different UTF-8 length
    // (k K KELVIN, s S LONG-S, the three DZ-WITH-CARON letters incl. the titlecase one, sharp s)
    {
        let fold_atoms = vec![
            Node::lit("k"), Node::lit("\u{17f}"), Node::lit("\u{1c5}"), Node::lit("\u{1c6}"), Node::lit("\u{df}"), Node::lit("ks"),
            Flags("".into(), "i".into(), Some(Box::new(Node::lit("k")))), Assert(A::WordB), Backref(1), Any(false),
        ];
        let mut g2 = Gen::with_atoms(fold_atoms, vec![(0, Some(1), Mode::Greedy), (1, None, Mode::Lazy), (2, Some(2), Mode::Greedy)], false, true);
        let small = g2.upto(3);
        text_sets.push(gen::texts(&["k", "K", "\u{212a}", "s", "\u{17f}", "\u{1c4}", "\u{1c5}", "\u{1c6}", "\u{df}", "\u{1e9e}"], 2));
        let set = text_sets.len() - 1;
        for p in gen::products(&g2.upto(1)).into_iter().chain(small).chain(gen::fold_adjacent_family()) {
            items.push((p, set));
        }
    }
    // letter-free patterns whose classes still contain letters of one case (ranges that span a
    // letter block): the builder flag must reach them like (?i) does
    {
        let free_atoms = vec![Node::class("[0-_]"), Node::class("[@-_]"), Node::class("[_-~]"), Node::class("[^!-_]"), Node::class("[0-9]"), Any(false), Assert(A::WordB), Assert(A::StartText), Node::lit("-")];
        let mut g3 = Gen::with_atoms(free_atoms, vec![(0, Some(1), Mode::Greedy), (1, None, Mode::Greedy), (2, Some(2), Mode::Lazy)], false, true);
        for p in g3.upto(3) {
            items.push((p, 0));
        }
    }
    let n_fold = items.iter().filter(|(_, s)| *s != 0).count();
    let acc = par_run(&items, false, Some(5_000_000), |_, (p, set), acc| {
        let texts = &text_sets[*set];
        if !p.refs_exist() {
            return;
        }
        let s = p.print();
        let plain = match compile(&s) {
            Got::Val(r) => r,
            Got::Err(e) => {
                acc.count("compile-err");
                // a pattern the default limits reject must stay rejected under options that do
                // not raise the program size limit
                if e.contains("InnerError") {
                    for (name, f) in [
                        ("delegate_dfa_size_limit(4 MiB)", Box::new(|b: &mut RegexBuilder| { b.delegate_dfa_size_limit(4 << 20); }) as Box<dyn Fn(&mut RegexBuilder)>),
                        ("case_insensitive(false)", Box::new(|b: &mut RegexBuilder| { b.case_insensitive(false); })),
                        ("backtrack_limit(10)", Box::new(|b: &mut RegexBuilder| { b.backtrack_limit(10); })),
                    ] {
                        acc.evals += 1;
                        if let Got::Val(_) = compile_with(&s, |b| f(b)) {
                            let mut v = Violation::new("C14", "neutral-option", &s, "", 0, "RegexBuilder::build", format!("Err({}) as without the option", e), "Ok".into());
                            v.options = json!({"option": name});
                            acc.violate(v);
                        }
                        acc.count("default-limit-rejections-rechecked");
                    }
                }
                return;
            }
            o => {
                acc.violate(Violation::new("C14", "compile-panic", &s, "", 0, "Regex::new", "Ok or Err".into(), o.show()));
                return;
            }
        };
        let rt = route(&plain);
        let vm = rt.is_vm();
        acc.count(if vm { "route:vm" } else { "route:wrapped" });
        let all = |re: &fancy_regex::Regex| -> Vec<Got<Option<crate::refm::Caps>>> {
            let mut v = vec![];
            for t in texts {
                for from in gen::offsets(t) {
                    v.push(captures_from(re, t, from));
                }
            }
            v
        };
        let compare = |acc: &mut Acc, what: &str, opts: serde_json::Value, a: &[Got<Option<crate::refm::Caps>>], b: &[Got<Option<crate::refm::Caps>>], apat: &str| {
            let mut k = 0;
            for t in texts {
                for from in gen::offsets(t) {
                    acc.evals += 1;
                    if a[k] != b[k] {
                        let mut v = Violation::new("C14", what, &s, t, from, "captures_from_pos", format!("{} (as {:?} without the option)", a[k].show(), apat), b[k].show());
                        v.options = opts.clone();
                        acc.violate(v);
                        return;
                    }
                    k += 1;
                }
            }
        };
        let base = all(&plain);
        // (a) case_insensitive(true) == "(?i)" + P
        let inline = format!("(?i){}", s);
        // (the builder is switched off and on again first: the last call decides)
        match (compile(&inline), compile_with(&s, |b| { b.case_insensitive(false); b.case_insensitive(true); })) {
            (Got::Val(ri), Got::Val(rb)) => {
                let (wi, wb) = (all(&ri), all(&rb));
                compare(acc, "case-insensitive", json!({"case_insensitive": true}), &wi, &wb, &inline);
                if wi != base {
                    acc.count("casei-changes-results");
                    if vm {
                        acc.count("casei-changes-results:vm");
                    }
                    if s.contains("(?-i") {
                        acc.count("casei-changes-results:with-inner-(?-i");
                    }
                    acc.distinct += 1;
                    acc.sample(2, || json!({"pattern": s, "option": "case_insensitive(true)", "route": if vm {"vm"} else {"wrapped"}}));
                }
            }
            (a, b) => {
                if a.val().is_some() != b.val().is_some() {
                    let mut v = Violation::new("C14", "case-insensitive", &s, "", 0, "RegexBuilder::build", format!("builds like {:?}: {}", inline, a.map(|_| "Ok").show()), b.map(|_| "Ok").show());
                    v.options = json!({"case_insensitive": true});
                    acc.violate(v);
                }
            }
        }
        // (e) what case-insensitivity MEANS, independent of how the flag travels: the builder
        // option on P must behave like P with both cases of every letter spelled out
        if let Some(d) = desugar(p, true) {
            let ds = d.print();
            if let (Got::Val(rd), Got::Val(rb)) = (compile(&ds), compile_with(&s, |b| { b.case_insensitive(true); })) {
                // backreferences compare text exactly in both spellings, so they stay comparable
                let (wd, wb) = (all(&rd), all(&rb));
                compare(acc, "case-insensitive-meaning", json!({"case_insensitive": true, "spelled_out": ds}), &wd, &wb, &ds);
                acc.count("casei-compared-with-spelled-out-classes");
            }
        }
        // (f) construction paths: FromStr and a builder without options are Regex::new; as_str / Display return the pattern
        {
            let parsed = guard(|| s.parse::<fancy_regex::Regex>());
            match parsed {
                Got::Val(r) => {
                    let w = all(&r);
                    compare(acc, "construction-path", json!({"path": "str::parse::<Regex>()"}), &base, &w, &s);
                    if r.as_str() != s || plain.as_str() != s || format!("{}", plain) != s {
                        acc.violate(Violation::new("C14", "construction-path", &s, "", 0, "Regex::as_str / Display", format!("{:?}", s), format!("{:?} / {:?} / {:?}", r.as_str(), plain.as_str(), format!("{}", plain))));
                    }
                }
                o => acc.violate(Violation::new("C14", "construction-path", &s, "", 0, "str::parse::<Regex>()", "Ok, as Regex::new".into(), o.map(|_| "Ok").show())),
            }
            if let Got::Val(r) = compile_with(&s, |_| {}) {
                let w = all(&r);
                compare(acc, "construction-path", json!({"path": "RegexBuilder::new(p).build()"}), &base, &w, &s);
            }
            acc.count("construction-paths-compared");
        }
        // (b) options that must not change anything
        for (name, opts, f) in [
            ("case_insensitive(false)", json!({"case_insensitive": false}), Box::new(|b: &mut RegexBuilder| { b.case_insensitive(false); }) as Box<dyn Fn(&mut RegexBuilder)>),
            ("huge limits", json!({"backtrack_limit": "usize::MAX", "delegate_size_limit": "1<<30", "delegate_dfa_size_limit": "1<<30"}), Box::new(|b: &mut RegexBuilder| { b.backtrack_limit(usize::MAX).delegate_size_limit(1 << 30).delegate_dfa_size_limit(1 << 30); })),
            ("tiny dfa cache", json!({"delegate_dfa_size_limit": 0}), Box::new(|b: &mut RegexBuilder| { b.delegate_dfa_size_limit(0); })),
            // setter sequences on one builder: the last call decides
            ("case_insensitive(true) then (false)", json!({"sequence": "case_insensitive(true), case_insensitive(false)"}), Box::new(|b: &mut RegexBuilder| { b.case_insensitive(true); b.case_insensitive(false); })),
            ("limits set and reset", json!({"sequence": "backtrack_limit(0), delegate_size_limit(1), then usize::MAX / 1<<30 again"}), Box::new(|b: &mut RegexBuilder| { b.backtrack_limit(0).delegate_size_limit(1).delegate_dfa_size_limit(1); b.backtrack_limit(usize::MAX).delegate_size_limit(1 << 30).delegate_dfa_size_limit(1 << 30); })),
        ] {
            match compile_with(&s, |b| f(b)) {
                Got::Val(r) => {
                    let w = all(&r);
                    compare(acc, "neutral-option", opts, &base, &w, &s);
                }
                Got::Err(e) => {
                    if name != "tiny dfa cache" {
                        let mut v = Violation::new("C14", "neutral-option", &s, "", 0, "RegexBuilder::build", "Ok".into(), format!("Err({})", e));
                        v.options = opts;
                        acc.violate(v);
                    } else {
                        acc.count("tiny-dfa-cache-rejected-at-build (allowed)");
                    }
                }
                o => acc.violate(Violation::new("C14", "panic", &s, "", 0, "RegexBuilder::build", "Ok or Err".into(), o.show())),
            }
        }
        // (c) delegate_size_limit: must fail whenever regex-automata itself rejects a delegated piece
        let pieces: Vec<String> = match &rt {
            Route::Vm { delegates, .. } => delegates.iter().map(|d| d.replace("\\\\", "\\")).collect(),
            _ => vec![s.clone()],
        };
        for limit in [1usize, 200, 1_000, 5_000, 20_000, 100_000] {
            // judge only far from the boundary: the oracle must agree with itself at limit/4 and 4*limit
            let verdicts: Vec<Option<bool>> = pieces.iter().map(|pc| {
                let v: Vec<Option<bool>> = [limit / 4, limit, limit * 4].iter().map(|l| ra_rejects(pc, (*l).max(1))).collect();
                if v[0] == v[1] && v[1] == v[2] { v[1] } else { None }
            }).collect();
            let some_rejected = verdicts.iter().any(|v| *v == Some(true));
            let all_accepted = verdicts.iter().all(|v| *v == Some(false));
            let built = compile_with(&s, |b| { b.delegate_size_limit(limit); });
            let opts = json!({"delegate_size_limit": limit, "pieces": pieces});
            match (&built, some_rejected, all_accepted) {
                (Got::Val(_), true, _) => {
                    let mut v = Violation::new("C14", "size-limit", &s, "", 0, "RegexBuilder::build", "Err: regex-automata rejects a delegated piece under this nfa_size_limit".into(), "Ok".into());
                    v.options = opts;
                    acc.violate(v);
                }
                (Got::Err(e), _, true) if e.contains("CompileError") && !pieces.is_empty() => {
                    let mut v = Violation::new("C14", "size-limit", &s, "", 0, "RegexBuilder::build", "Ok: regex-automata accepts every delegated piece under this limit".into(), format!("Err({})", e));
                    v.options = opts;
                    acc.violate(v);
                }
                (Got::Panic(m), _, _) => acc.violate(Violation::new("C14", "panic", &s, "", 0, "RegexBuilder::build", "Ok or Err".into(), m.clone())),
                (Got::Err(_), true, _) => {
                    acc.count(if vm { "size-limit-rejections:vm" } else { "size-limit-rejections:wrapped" });
                }
                (Got::Val(r), _, true) => {
                    // a limit that is not exceeded must not change results
                    let w = all(r);
                    compare(acc, "neutral-option", opts, &base, &w, &s);
                }
                _ => acc.count("size-limit:near-boundary-or-no-oracle (not judged)"),
            }
        }
        // (d) backtrack_limit applies to fancy patterns, is ignored by plain ones
        if let Got::Val(r0) = compile_with(&s, |b| { b.backtrack_limit(0); }) {
            let w = all(&r0);
            let mut k = 0;
            for t in texts {
                for from in gen::offsets(t) {
                    let ok = w[k] == base[k] || (vm && w[k] == Got::Err("RuntimeError(BacktrackLimitExceeded)".into()));
                    if !ok {
                        let mut v = Violation::new("C14", "backtrack-limit", &s, t, from, "captures_from_pos", format!("{}{}", base[k].show(), if vm { " or BacktrackLimitExceeded" } else { "" }), w[k].show());
                        v.options = json!({"backtrack_limit": 0});
                        acc.violate(v);
                        break;
                    }
                    if w[k] != base[k] {
                        acc.count("backtrack-limit-0-errors:vm");
                    }
                    k += 1;
                }
            }
        }
    });
    let mut out = Outcome::new(acc);
    out.distinct_nontrivial = out.acc.distinct;
    out.rule = format!("{} patterns: all trees of <= 4 nodes (thorough: plus a sixth of the 5-node trees) over a A b . [ab] [^a] [A-B] ^ \\b \\1 (?-i:a) (?i:b) with groups, atomic groups, look-arounds, 5 quantifier forms; context products; patterns with large delegated pieces (\\w{{n}} plain, before a look-ahead, around \\b, in a back-referenced group, in an atomic alternation); x {} texts over {{a,A,b,B}} x every offset (incl. letter-free trees over [0-_] [@-_] [_-~] [^!-_] [0-9] . \\b ^ -); plus {} patterns (trees of <= 3 nodes and context products) over k, LONG-S, the titlecase and lower-case DZ-WITH-CARON letters, sharp s, ks, (?-i:k), \\b, \\1 x all texts of <= 2 letters over their case orbits (k K KELVIN-SIGN s LONG-S and the three DZ letters, both sharp s). (a) case_insensitive(true) must give exactly the captures of \"(?i)\"+P; (e) case_insensitive(true) on P must also give the captures of P with both cases of every letter spelled out as classes and the flag groups dropped (an independent statement of what the flag means); (f) str::parse::<Regex>() and RegexBuilder::new(P).build() behave like Regex::new(P), as_str / Display give P back; (b) case_insensitive(false), huge limits and a zero DFA cache must not change anything; (c) delegate_size_limit(n) for n in {{1,200,1000,5000,20000,100000}} (incl. runs of 32 adjacent easy pieces): the build must fail when regex-automata's own meta::Builder rejects a delegated piece (each Delegate pattern of the VM program, or the whole pattern) under nfa_size_limit(n) and succeed with unchanged results when it accepts all of them - judged only where the oracle gives the same verdict at n/4 and 4n; (d) backtrack_limit(0): plain patterns unchanged, fancy ones unchanged or BacktrackLimitExceeded. Non-trivial: distinct patterns whose results change under case_insensitive(true).", items.len() - n_fold, texts.len(), n_fold);
    out.assumptions = vec!["regex-automata is the oracle for 'exceeds the size limit'; pieces are read from Regex::debug_print".into()];
    let (cv, ci, rv, rw) = (out.acc.get("casei-changes-results:vm"), out.acc.get("casei-changes-results:with-inner-(?-i"), out.acc.get("size-limit-rejections:vm"), out.acc.get("size-limit-rejections:wrapped"));
    out.extra = json!({"casei_changes_results_vm": cv, "with_inner_minus_i": ci, "size_limit_rejections": {"vm": rv, "wrapped": rw}});
    out.require(cv > 0 && ci > 0, "case-insensitivity was not observed on VM patterns / patterns with inner (?-i:..)");
    out.require(rv > 0 && rw > 0, "no size-limit rejection observed on both routes");
    out
}
