//! Small deterministic PRNG (splitmix64) so that every random choice derives from VERIF_SEED.
#[derive(Clone, Debug)]
pub struct Rng(u64);
impl Rng {
    pub fn new(seed: u64) -> Rng {
        Rng(seed.wrapping_mul(0x9E3779B97F4A7C15) ^ 0xD1B54A32D192ED03)
    }
    pub fn next(&mut self) -> u64 {
        self.0 = self.0.wrapping_add(0x9E3779B97F4A7C15);
        let mut z = self.0;
        z = (z ^ (z >> 30)).wrapping_mul(0xBF58476D1CE4E5B9);
        z = (z ^ (z >> 27)).wrapping_mul(0x94D049BB133111EB);
        z ^ (z >> 31)
    }
    pub fn below(&mut self, n: u64) -> u64 {
        if n == 0 {
            0
        } else {
            self.next() % n
        }
    }
    pub fn chance(&mut self, num: u64, den: u64) -> bool {
        self.below(den) < num
    }
    pub fn pick<'a, T>(&mut self, v: &'a [T]) -> &'a T {
        &v[self.below(v.len() as u64) as usize]
    }
    pub fn fork(&mut self) -> Rng {
        Rng::new(self.next())
    }
}
