//! C02 — capture groups equal those of the reference match path.
use crate::common::*;
use crate::diff::{self, Compare, DiffCfg};
use crate::spaces;
use serde_json::json;

pub fn run(ctx: &Ctx) -> Outcome {
    let sp = spaces::c01_space(ctx.tier, ctx.seed, false, 4, 5, 3, 3, 2_000, 30_000);
    let texts = spaces::texts_c01(3);
    let cfg = DiffCfg { prop: "C02", compare: Compare::Groups, entry_points: false, ref_budget: crate::refm::BUDGET, step_cap: Some(2_000_000), exclude: &diff::default_exclude, static_known: &diff::fy_known, style: None, f1_compat: false };
    let mut acc = diff::run(ctx, &cfg, &sp.patterns, &texts);
    let mut describe = sp.describe.clone();
    if ctx.tier == Tier::Thorough {
        let sp2 = spaces::c01_space(Tier::Quick, ctx.seed ^ 2, false, 4, 4, 2, 2, 20_000, 20_000);
        acc.merge(diff::run(ctx, &cfg, &sp2.patterns, &spaces::texts_c01(4)));
        describe.push_str(&format!(" x texts<=3; plus [{}] x texts<=4", sp2.describe));
    }
    // longer seeded random texts (5-10 characters) on the random trees: backtracking depth and
    // delegate/VM hand-overs that the exhaustive short texts cannot reach
    {
        let rnd = crate::gen::random_patterns(ctx.seed ^ 0x10E6, ctx.tier.pick(2_000, 40_000), false, 6, 14);
        let long = crate::gen::random_texts(ctx.seed, &crate::gen::ALPHA_C01, ctx.tier.pick(12, 40), 5, 10);
        let a3 = diff::run(ctx, &cfg, &rnd, &long);
        acc.add("long-text-evaluations", a3.evals);
        acc.merge(a3);
        describe.push_str(&format!("; plus {} seeded random trees x {} seeded random texts of 5-10 characters", rnd.len(), long.len()));
    }
    // "nothing left over from abandoned alternatives": every context product with a fallback
    // alternative that takes the whole text - where P matches the whole text the span is the same
    // either way, so a lost or wrongly won P shows in the groups; where P fails after having
    // written groups, the fallback must report them unset
    {
        use crate::ast::{Mode, Node, Node::*};
        let mut g = crate::gen::Gen::new(false);
        let fillers = g.upto(ctx.tier.pick(1, 2));
        let fam: Vec<Node> = crate::gen::products(&fillers).into_iter().filter(|p| p.n_groups() > 0).map(|p| Alt(vec![p, Repeat(Box::new(Any(true)), 1, None, Mode::Greedy)])).collect();
        let a9 = diff::run(ctx, &cfg, &fam, &texts);
        acc.add("fallback-alternative-evaluations", a9.evals);
        acc.merge(a9);
        describe.push_str(&format!("; plus {} patterns P|(?s:.)+ with P = context x E({}) products that hold a group", fam.len(), ctx.tier.pick(1, 2)));
    }
    // counted repeats with bounds of two and three digits, texts around the bound
    {
        let fam = crate::gen::big_count_family(260);
        let a4 = diff::run_pairs(ctx, "C02", &fam, true, 2_000_000);
        acc.add("big-count-evaluations", a4.evals);
        acc.merge(a4);
        describe.push_str(&format!("; plus {} patterns with counted repeats of 10-256 (a{{n}}, a{{n,}}, [ab]{{2,n}}c, (?:ab){{n}}, (a{{n}})\\1?, \\ba{{n}}\\b, look-around and atomic bodies) x texts of n/10, n-1, n, n+1, 2n repetitions at 5 start offsets", fam.len()));
    }
    // a literal loop behind a literal prefix, continuation that needs a give-back, word boundary
    {
        let texts = crate::gen::texts(&["a", "b", "-"], 4);
        let items: Vec<diff::PairItem> = crate::gen::literal_loop_family().into_iter().map(|p| diff::PairItem { pattern: p, reference: None, texts: texts.clone(), all_offsets: true }).collect();
        let a7 = diff::run_items(ctx, "C02", &items, true, crate::refm::BUDGET);
        acc.add("literal-loop-evaluations", a7.evals);
        acc.merge(a7);
        describe.push_str(&format!("; plus {} patterns 'two literals, a greedy loop over one literal, a continuation, a word boundary' x all texts over a b - up to length 4, every offset", items.len()));
    }
    // wide match state: 3-8 groups in a counted loop that has to be undone
    {
        {
            let texts = crate::gen::texts(&["a", "b", "-"], 4);
            let items: Vec<diff::PairItem> = crate::gen::common_prefix_alt_family().into_iter().map(|p| diff::PairItem { pattern: p, reference: None, texts: texts.clone(), all_offsets: true }).collect();
            let a8 = diff::run_items(ctx, "C02", &items, true, crate::refm::BUDGET);
            acc.add("common-prefix-alternation-evaluations", a8.evals);
            acc.merge(a8);
            describe.push_str(&format!("; plus {} alternations whose branches start with the same element (family of finding FY) x all texts over a b - up to length 4", items.len()));
        }
        let fam = crate::gen::wide_group_family(ctx.seed, ctx.tier.pick(1_500, 20_000), true);
        let a5 = diff::run_pairs(ctx, "C02", &fam, true, 2_000_000);
        acc.add("wide-state-evaluations", a5.evals);
        acc.merge(a5);
        describe.push_str(&format!("; plus {} seeded patterns with 3-8 groups inside a counted loop next to an assertion, a failing tail and a fallback alternative x 18 texts of 1-3 repetitions of the loop's text", fam.len()));
    }
    // case-insensitive scopes: the reference runs on the same tree with every letter spelled out
    // as the class of its case orbit (k K KELVIN SIGN, s S LONG S, ..)
    {
        use crate::ast::{Mode, Node, Node::*, A};
        let fold_atoms = vec![Node::lit("k"), Node::lit("K"), Node::lit("s"), Node::lit("\u{17f}"), Node::lit("ks"), Flags("".into(), "i".into(), Some(Box::new(Node::lit("k")))), Any(false), Assert(A::WordB)];
        let mut g2 = crate::gen::Gen::with_atoms(fold_atoms, vec![(0, Some(1), Mode::Greedy), (1, None, Mode::Lazy), (2, Some(2), Mode::Greedy)], false, true);
        let fillers = g2.upto(2);
        let texts = crate::gen::texts(&["k", "K", "\u{212a}", "s", "\u{17f}", "-"], 3);
        let mut items = vec![];
        for p in crate::gen::products(&fillers).into_iter().chain(g2.upto(3)) {
            if !p.refs_exist() || diff::default_exclude(&p).is_some() {
                continue;
            }
            let wrapped = Flags("i".into(), "".into(), Some(Box::new(p)));
            if let Some(d) = crate::c14::desugar(&wrapped, false) {
                items.push(diff::PairItem { pattern: wrapped, reference: Some(d), texts: texts.clone(), all_offsets: true });
            }
        }
        // neighbours that differ only in case or case mode, bare and inside (?i:..)
        for p in crate::gen::fold_adjacent_family() {
            for wrap in [false, true] {
                let q = if wrap { Flags("i".into(), "".into(), Some(Box::new(p.clone()))) } else { p.clone() };
                if let Some(d) = crate::c14::desugar(&q, false) {
                    items.push(diff::PairItem { pattern: q, reference: Some(d), texts: texts.clone(), all_offsets: true });
                }
            }
        }
        let a6 = diff::run_items(ctx, "C02", &items, true, crate::refm::BUDGET);
        acc.add("case-fold-evaluations", a6.evals);
        acc.merge(a6);
        describe.push_str(&format!("; plus {} patterns (?i:P), P from context products and trees of <= 3 nodes over k K s LONG-S ks (?-i:k) . \\b, and the family quantified-X-next-to-Y with X, Y from k K (?i:k) (?i:K) (?-i:k) s (?i:s) LONG-S in front of / behind \\b, (?=-), (?=), (.)\\1?, bare and inside (?i:..), judged against the reference run on P with every letter replaced by the class of its case orbit, x all texts over k K KELVIN-SIGN s LONG-S - up to length 3, every offset", items.len()));
    }
    diff::run_witnesses(ctx, "C02", "F1", &mut acc);
    let mut out = Outcome::new(acc);
    out.distinct_nontrivial = out.acc.distinct;
    out.rule = format!("patterns: {}; all texts over {{a,b,c,é,\\n,-}} up to the bound, every offset; every group of captures_from_pos compared with the reference path (cases whose overall span differs are C01's). Non-trivial: a pattern with >=1 group where some group was None on one case and Some on another.", describe);
    out.assumptions = vec!["reference matcher rule 3: a group reports the last iteration that entered it".into()];
    out.extra = json!({"routes": {"vm": out.acc.get("route:vm"), "wrapped": out.acc.get("route:wrapped")}});
    let ok = out.acc.get("route:vm") > 0;
    out.require(ok, "no VM-route pattern was exercised");
    out
}
