//! The committed known-findings file. Read-only at run time.
//!
//! Line formats (everything else is a comment):
//!   known: property=<Cxx> id=<finding> :: <what fails, one line> :: <json: {"witnesses":[...], ...}>
//!   fixed: property=<Cxx> <commit> <what failed>
use serde_json::Value;
use std::collections::BTreeMap;

#[derive(Clone, Debug, Default)]
pub struct Known {
    entries: BTreeMap<(String, String), (String, Value)>,
}

impl Known {
    pub fn load() -> Known {
        let path = format!("{}/KNOWN_FINDINGS.txt", crate::common::verif_dir());
        let text = std::fs::read_to_string(&path).unwrap_or_default();
        let mut k = Known::default();
        for line in text.lines() {
            let Some(rest) = line.strip_prefix("known:") else { continue };
            let parts: Vec<&str> = rest.splitn(3, " :: ").collect();
            if parts.len() < 2 {
                continue;
            }
            let mut prop = String::new();
            let mut id = String::new();
            for kv in parts[0].split_whitespace() {
                if let Some(v) = kv.strip_prefix("property=") {
                    prop = v.to_string();
                }
                if let Some(v) = kv.strip_prefix("id=") {
                    id = v.to_string();
                }
            }
            let data = parts.get(2).and_then(|s| serde_json::from_str(s.trim()).ok()).unwrap_or(Value::Null);
            if !prop.is_empty() && !id.is_empty() {
                k.entries.insert((prop, id), (parts[1].trim().to_string(), data));
            }
        }
        k
    }
    pub fn listed(&self, prop: &str, id: &str) -> bool {
        self.entries.contains_key(&(prop.to_string(), id.to_string()))
    }
    pub fn describe(&self, prop: &str, id: &str) -> Option<String> {
        self.entries.get(&(prop.to_string(), id.to_string())).map(|e| e.0.clone())
    }
    /// witnesses recorded for a finding: objects with pattern, text, (offset), observed, expected
    pub fn witnesses(&self, prop: &str, id: &str) -> Vec<Value> {
        self.entries
            .get(&(prop.to_string(), id.to_string()))
            .and_then(|e| e.1.get("witnesses").and_then(|w| w.as_array().cloned()))
            .unwrap_or_default()
    }
}
