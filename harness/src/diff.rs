//! Differential monitor: crate vs reference matcher (C01, C02, C13 behaviour, C15), with the
//! lock-step shadow (C20 program level) running underneath.
use crate::ast::Node;
use crate::common::*;
use crate::gen;
use crate::refm::{self, Out};
use serde_json::json;

#[derive(Clone, Copy, PartialEq, Eq)]
pub enum Compare {
    /// existence + overall span (C01)
    Span,
    /// all groups, for cases whose overall span agrees (C02)
    Groups,
    /// both (C15, C13)
    All,
}

pub struct DiffCfg<'a> {
    pub prop: &'a str,
    pub compare: Compare,
    /// also call find_from_pos / is_match and compare them with the reference span
    pub entry_points: bool,
    pub ref_budget: u64,
    pub step_cap: Option<u64>,
    /// static filter: patterns to leave out (returns a reason)
    pub exclude: &'a (dyn Fn(&Node) -> Option<&'static str> + Sync),
    /// known-finding attribution by static class: (finding id) if the pattern is in a listed class
    pub static_known: &'a (dyn Fn(&Node) -> Option<&'static str> + Sync),
    /// spelling of the printed pattern (None = plain)
    pub style: Option<&'a crate::ast::Style>,
    /// run the reference in its bug-compatible F1 mode (for patterns of the F1 class)
    pub f1_compat: bool,
}

pub fn default_exclude(p: &Node) -> Option<&'static str> {
    if !p.refs_exist() {
        Some("ref-to-missing-group")
    } else if !p.refs_closed() {
        Some("ref-not-closed")
    } else if p.has_f1() && !p.f1_loops_all_hard() {
        // finding F1 with an easy loop body: whether the loop runs in the VM (F1 behaviour) or in
        // a delegate (reference behaviour) depends on the VM/automata split - no expectation
        Some("class-F1 (easy loop body)")
    } else if p.has_bare_backref_cond() {
        Some("bare-backref-condition")
    } else {
        None
    }
}

pub fn no_static_known(_: &Node) -> Option<&'static str> {
    None
}
/// finding FY by its static class (see `Node::has_common_prefix_alt`)
pub fn fy_known(p: &Node) -> Option<&'static str> {
    if p.has_common_prefix_alt() {
        Some("FY")
    } else {
        None
    }
}

fn out_of(g: &Got<Option<refm::Caps>>) -> Option<Out> {
    match g {
        Got::Val(None) => Some(Out::NoMatch),
        Got::Val(Some(c)) => Some(Out::Match(c.clone())),
        _ => None,
    }
}

pub fn show_out(o: &Out) -> String {
    match o {
        Out::NoMatch => "no match".into(),
        Out::Inconclusive => "inconclusive".into(),
        Out::Match(c) => show_caps(&Some(c.clone())),
    }
}

/// Run the differential over `patterns x texts x offsets`.
pub fn run(ctx: &Ctx, cfg: &DiffCfg<'_>, patterns: &[Node], texts: &[String]) -> Acc {
    let fj_listed = ctx.known.listed(cfg.prop, "FJ");
    par_run(patterns, true, cfg.step_cap, |_, p, acc| {
        // F1-class patterns whose empty-capable loops all have hard bodies are certainly run by
        // the VM: they are checked against the bug-compatible expectation of the known finding
        let f1 = cfg.f1_compat || p.has_f1();
        refm::F1_COMPAT.with(|c| c.set(f1));
        if let Some(why) = (cfg.exclude)(p) {
            acc.count(&format!("excluded:{}", why));
            return;
        }
        let s = match cfg.style {
            Some(st) => p.print_with(st),
            None => p.print(),
        };
        let re = match compile(&s) {
            Got::Val(r) => r,
            Got::Err(e) => {
                acc.count(&format!("compile-err:{}", e.split(['(', ',']).take(2).collect::<Vec<_>>().join("(")));
                return;
            }
            other => {
                acc.violate(Violation::new(cfg.prop, "compile-panic", &s, "", 0, "Regex::new", "Ok or Err".into(), other.show()));
                return;
            }
        };
        let Some((r, ng)) = refm::compile(p) else {
            acc.count("excluded:not-modelled");
            return;
        };
        let rt = route(&re);
        acc.count(match rt {
            Route::Wrapped => "route:wrapped",
            Route::Vm { .. } => "route:vm",
            Route::Unknown => "route:unknown",
        });
        if f1 {
            acc.count("F1-class patterns checked against the bug-compatible expectation");
        }
        let statically_known = (cfg.static_known)(p).filter(|id| ctx.known.listed(cfg.prop, id));
        // hook-free fallback for finding FJ (DESIGN.md §8): without the aux-stack pairing signature
        // the class is static - a conditional somewhere below / next to a committing region
        let fj_static = !HOOKS
            && fj_listed
            && p.has_cond()
            && p.any(&|n| matches!(n, Node::Atomic(_) | Node::Look(..) | Node::Repeat(_, _, _, crate::ast::Mode::Poss)) || matches!(n, Node::CondExpr(c, ..) if c.has_cond()));
        let _ = hook_take();
        let (mut any_match, mut any_nomatch, mut any_bt, mut any_del, mut any_grp_some, mut any_grp_none) = (false, false, false, false, false, false);
        let (mut cond_true, mut cond_false) = (false, false);
        let mut cap_hits = 0;
        for t in texts {
            if over_budget() {
                acc.count("work-items-skipped:time-budget-exhausted");
                return;
            }
            for from in gen::offsets(t) {
                acc.evals += 1;
                let (want, _steps) = refm::search(&r, ng, t, from, false, cfg.ref_budget);
                if want == Out::Inconclusive {
                    acc.inconclusive += 1;
                    continue;
                }
                let got = captures_from(&re, t, from);
                let h = acc.take_hooks();
                any_bt |= h.last_backtracks > 0 || h.backtracks > 0;
                any_del |= h.delegate_calls > 0;
                if h.shadow_faults > 0 {
                    let mut v = Violation::new(cfg.prop, "shadow(C20)", &s, t, from, "captures_from_pos", "restore/commit discipline".into(), h.first_fault.clone().unwrap_or_default());
                    v.note = "lock-step shadow of the backtracking state".into();
                    acc.violate(v);
                }
                // the leaked entry of finding FJ comes from a conditional; the same signature on a
                // pattern without one is a pairing fault of its own (C20)
                if h.aux_mismatch > 0 && !p.has_cond() {
                    let mut v = Violation::new(cfg.prop, "aux-pairing(C20)", &s, t, from, "captures_from_pos", "every EndAtomic pops the entry pushed by its own BeginAtomic".into(), format!("{} EndAtomic instruction(s) consumed an entry pushed by another BeginAtomic", h.aux_mismatch));
                    v.note = "hook H3: auxiliary-stack pairing".into();
                    acc.violate(v);
                }
                let attributed = |acc: &mut Acc, what: &str| -> bool {
                    if ((h.aux_mismatch > 0 && p.has_cond()) || fj_static) && fj_listed {
                        acc.known_hit("FJ", || format!("{} on {:?}@{}: {}", s, t, from, what));
                        return true;
                    }
                    if let Some(id) = statically_known {
                        acc.known_hit(id, || format!("{} on {:?}@{}: {}", s, t, from, what));
                        return true;
                    }
                    false
                };
                let Some(gout) = out_of(&got) else {
                    // Err / panic / step cap where the reference finished within its budget
                    let what = format!("crate {} vs reference {}", got.show(), show_out(&want));
                    if !got.is_panic() && attributed(acc, &what) {
                        continue;
                    }
                    let monitor = match got {
                        Got::Panic(_) => "panic",
                        Got::StepCap => "step-cap",
                        _ => "runtime-error",
                    };
                    acc.violate(Violation::new(cfg.prop, monitor, &s, t, from, "captures_from_pos", show_out(&want), got.show()));
                    if got.is_step_cap() {
                        cap_hits += 1;
                        if cap_hits >= 2 {
                            acc.count("patterns-abandoned-after-2-step-cap-hits");
                            return;
                        }
                    }
                    continue;
                };
                match &gout {
                    Out::Match(c) => {
                        any_match = true;
                        if c.len() > 1 {
                            any_grp_some |= c[1..].iter().any(|g| g.is_some());
                            any_grp_none |= c[1..].iter().any(|g| g.is_none());
                        }
                    }
                    _ => any_nomatch = true,
                }
                if h.aux_mismatch > 0 {
                    acc.count("runs-with-aux-mismatch");
                }
                let span = |o: &Out| match o {
                    Out::Match(c) => c[0],
                    _ => None,
                };
                let span_ok = span(&gout) == span(&want);
                if !span_ok {
                    if cfg.compare != Compare::Groups {
                        let what = format!("crate {} vs reference {}", show_out(&gout), show_out(&want));
                        if !attributed(acc, &what) {
                            acc.violate(Violation::new(cfg.prop, "span", &s, t, from, "captures_from_pos", show_out(&want), show_out(&gout)));
                        }
                    } else {
                        acc.count("span-differs(left to C01)");
                    }
                    continue;
                }
                if cfg.compare != Compare::Span && gout != want {
                    let what = format!("crate {} vs reference {}", show_out(&gout), show_out(&want));
                    if !attributed(acc, &what) {
                        acc.violate(Violation::new(cfg.prop, "groups", &s, t, from, "captures_from_pos", show_out(&want), show_out(&gout)));
                    }
                    continue;
                }
                if cfg.entry_points {
                    let f = find_from(&re, t, from);
                    let _ = acc.take_hooks();
                    let wf = span(&want);
                    if f != Got::Val(wf) {
                        let what = format!("find_from_pos {} vs reference {:?}", f.show(), wf);
                        if !attributed(acc, &what) {
                            acc.violate(Violation::new(cfg.prop, "span", &s, t, from, "find_from_pos", format!("{:?}", wf), f.show()));
                        }
                    }
                    if from == 0 {
                        let im = is_match(&re, t);
                        let _ = acc.take_hooks();
                        if im != Got::Val(wf.is_some()) {
                            let what = format!("is_match {} vs reference {:?}", im.show(), wf);
                            if !attributed(acc, &what) {
                                acc.violate(Violation::new(cfg.prop, "existence", &s, t, 0, "is_match", format!("{}", wf.is_some()), im.show()));
                            }
                        }
                    }
                }
                // which way conditionals went is visible in the aux-stack traffic only coarsely;
                // record matches / non-matches of conditional patterns instead
                if p.has_cond() {
                    match gout {
                        Out::Match(_) => cond_true = true,
                        _ => cond_false = true,
                    }
                }
            }
        }
        let vm = rt.is_vm();
        let nontrivial = match cfg.compare {
            Compare::Span => vm && (any_del && any_bt || !HOOKS) && any_match && any_nomatch,
            Compare::Groups => ng >= 1 && any_grp_some && any_grp_none,
            Compare::All => any_match && any_nomatch && (cond_true && cond_false || !p.has_cond()),
        };
        if nontrivial {
            acc.distinct += 1;
            let n = acc.distinct;
            acc.sample(3, || json!({"pattern": s, "route": if vm {"vm"} else {"wrapped"}, "delegates": rt.n_delegates(), "nth_nontrivial": n}));
        }
    })
}

/// Re-run the recorded witnesses of a known finding. Each must show exactly the recorded
/// outcome (then the finding is reported as known) or the expected one (finding gone);
/// anything else is a violation.
pub fn run_witnesses(ctx: &Ctx, prop: &str, id: &str, acc: &mut Acc) {
    for w in ctx.known.witnesses(prop, id) {
        let pat = w["pattern"].as_str().unwrap_or("");
        let text = w["text"].as_str().unwrap_or("");
        let from = w["offset"].as_u64().unwrap_or(0) as usize;
        let observed = w["observed"].as_str().unwrap_or("");
        let expected = w["expected"].as_str().unwrap_or("");
        let api = w["api"].as_str().unwrap_or("captures");
        acc.evals += 1;
        let got = match compile(pat) {
            Got::Val(re) => match api {
                "find_iter" => match find_iter_seq(&re, text, 40) {
                    Got::Val(v) => format!("{:?}", v.iter().map(|r| r.clone().map_err(|e| e)).collect::<Vec<_>>()),
                    o => o.show(),
                },
                _ => match captures_from(&re, text, from) {
                    Got::Val(c) => show_caps(&c),
                    o => o.show(),
                },
            },
            o => format!("compile: {}", match o { Got::Err(e) => e, Got::Panic(m) => format!("PANIC {}", m), _ => "?".into() }),
        };
        let _ = acc.take_hooks();
        if got == observed {
            acc.known_hit(id, || format!("witness {} on {:?}: {} (reference: {})", pat, text, got, expected));
        } else if got == expected {
            acc.count(&format!("witness-now-agrees:{}", id));
        } else {
            acc.violate(Violation::new(prop, &format!("witness({})", id), pat, text, from, api, format!("{} (recorded finding) or {} (reference)", observed, expected), got));
        }
    }
}

/// Differential over explicit (pattern, texts) pairs at a few start offsets (0, 1, the middle, the
/// last two boundaries): for families whose texts are too long for the every-offset sweep.
/// `groups` = false: only the overall span is judged (C01); true: only cases whose span agrees (C02).
pub fn run_pairs(ctx: &Ctx, prop: &str, items: &[(Node, Vec<String>)], groups: bool, budget: u64) -> Acc {
    let items: Vec<PairItem> = items.iter().map(|(p, t)| PairItem { pattern: p.clone(), reference: None, texts: t.clone(), all_offsets: false }).collect();
    run_items(ctx, prop, &items, groups, budget)
}

/// One explicit case family member: the pattern handed to the crate, optionally a different tree
/// that states what it means for the reference matcher (e.g. case-insensitivity spelled out as
/// classes), and its texts.
pub struct PairItem {
    pub pattern: Node,
    pub reference: Option<Node>,
    pub texts: Vec<String>,
    pub all_offsets: bool,
}

pub fn run_items(ctx: &Ctx, prop: &str, items: &[PairItem], groups: bool, budget: u64) -> Acc {
    par_run(items, true, Some(20_000_000), |_, it, acc| {
        let (p, texts) = (&it.pattern, &it.texts);
        refm::F1_COMPAT.with(|c| c.set(false));
        let s = p.print();
        let re = match compile(&s) {
            Got::Val(r) => r,
            Got::Err(_) => {
                acc.count("pairs:compile-err");
                return;
            }
            other => {
                acc.violate(Violation::new(prop, "compile-panic", &s, "", 0, "Regex::new", "Ok or Err".into(), other.show()));
                return;
            }
        };
        let Some((r, ng)) = refm::compile(it.reference.as_ref().unwrap_or(p)) else {
            acc.count("pairs:not-modelled");
            return;
        };
        acc.count(if route(&re).is_vm() { "pairs:route:vm" } else { "pairs:route:wrapped" });
        for t in texts {
            let bs: Vec<usize> = gen::offsets(t).collect();
            let mut froms = if it.all_offsets { bs.clone() } else { vec![0, *bs.get(1).unwrap_or(&0), bs[bs.len() / 2], bs[bs.len().saturating_sub(2)], bs[bs.len() - 1]] };
            froms.sort();
            froms.dedup();
            for from in froms {
                acc.evals += 1;
                let (want, _) = refm::search(&r, ng, t, from, false, budget);
                if want == Out::Inconclusive {
                    acc.inconclusive += 1;
                    continue;
                }
                let got = captures_from(&re, t, from);
                let _ = acc.take_hooks();
                let Some(g) = out_of(&got) else {
                    if got.is_step_cap() {
                        acc.inconclusive += 1;
                    } else {
                        acc.violate(Violation::new(prop, if got.is_panic() { "panic" } else { "runtime-error" }, &s, t, from, "captures_from_pos", show_out(&want), got.show()));
                    }
                    continue;
                };
                let span = |o: &Out| match o {
                    Out::Match(c) => c[0],
                    _ => None,
                };
                let span_differs = span(&g) != span(&want);
                if (!groups && span_differs) || (groups && !span_differs && g != want) {
                    if p.has_common_prefix_alt() && ctx.known.listed(prop, "FY") {
                        acc.known_hit("FY", || format!("{} on {:?}@{}: {} (reference: {})", s, t, from, show_out(&g), show_out(&want)));
                        continue;
                    }
                    acc.violate(Violation::new(prop, if groups { "groups" } else { "span" }, &s, t, from, "captures_from_pos", show_out(&want), show_out(&g)));
                }
                acc.count("pairs:compared");
            }
        }
    })
}
