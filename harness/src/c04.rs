//! C04 — on the syntax shared with the regex crate the whole API agrees with it.
//! Model = regex::Regex.
use crate::ast::{Mode, Node, Node::*, A};
use crate::common::*;
use crate::gen::{self, Gen};
use fancy_regex::NoExpand;
use serde_json::json;
use std::panic::{catch_unwind, AssertUnwindSafe};

fn atoms() -> Vec<Node> {
    vec![
        Node::lit("a"),
        Node::lit("A"),
        Node::lit("b"),
        Node::lit("é"),
        Node::lit(" "),
        Any(false),
        Node::class("[ab]"),
        Node::class("[^a]"),
        Node::class("[a ]"),
        Node::class("[a\\-b]"),
        Node::class("[+\\-.]"),
        Node::class("[\\]a\\^]"),
        Node::class("[^\\s\\d]"),
        Node::class("[[:alpha:]&&[^b]]"),
        Node::class("[\\x61-b]"),
        Node::lit("-"),
        Node::class("\\w"),
        Node::class("\\s"),
        Node::class("\\d"),
        Assert(A::StartText),
        Assert(A::EndText),
        Assert(A::StartLine),
        Assert(A::EndLine),
        Assert(A::WordB),
        Assert(A::NotWordB),
        Assert(A::WordStart),
        Assert(A::WordEnd),
        Flags("i".into(), "".into(), None),
        Flags("x".into(), "".into(), None),
        Flags("s".into(), "".into(), None),
        Flags("m".into(), "".into(), None),
        Raw("\\A".into()),
        Raw("\\z".into()),
        Empty,
    ]
}
fn reps() -> Vec<(u32, Option<u32>, Mode)> {
    vec![
        (0, Some(1), Mode::Greedy),
        (0, None, Mode::Greedy),
        (1, None, Mode::Greedy),
        (0, Some(1), Mode::Lazy),
        (0, None, Mode::Lazy),
        (1, None, Mode::Lazy),
        (2, Some(2), Mode::Greedy),
        (1, Some(2), Mode::Lazy),
    ]
}

/// finding FL: an inline flag directive inside a capturing group (flags are not restored at `)`)
fn class_fl(p: &Node) -> bool {
    p.any(&|n| matches!(n, Group(_, c) if c.any(&|m| matches!(m, Flags(_, _, None)))))
}
/// finding FX: a class containing whitespace or `#` while the x flag is on
fn class_fx(p: &Node) -> bool {
    let has_x = p.any(&|n| matches!(n, Flags(on, _, _) if on.contains('x')));
    has_x && p.any(&|n| matches!(n, Class(c) if c.contains(' ') || c.contains('#')))
}

const TEMPLATES: [&str; 7] = ["", "x", "$0", "<$1>", "${n1}", "$$", "$9"];

type Spans = Vec<Option<(usize, usize)>>;

/// Everything the monitored API calls return for one (pattern, text), rendered comparably.
#[derive(PartialEq, Eq, Debug, Default)]
struct Obs {
    is_match: bool,
    find: Option<(usize, usize)>,
    caps: Option<Spans>,
    named: Vec<Option<(usize, usize)>>,
    find_iter: Vec<(usize, usize)>,
    caps_iter: Vec<Spans>,
    split: Vec<String>,
    splitn: Vec<Vec<String>>,
    replaced: Vec<String>,
    borrowed: Vec<bool>,
}

fn obs_regex(re: &regex::Regex, t: &str, names: &[String]) -> Obs {
    use std::borrow::Cow;
    let mut o = Obs::default();
    o.is_match = re.is_match(t);
    o.find = re.find(t).map(|m| (m.start(), m.end()));
    let sp = |c: &regex::Captures<'_>| -> Spans { (0..c.len()).map(|i| c.get(i).map(|m| (m.start(), m.end()))).collect() };
    if let Some(c) = re.captures(t) {
        o.named = names.iter().map(|n| c.name(n).map(|m| (m.start(), m.end()))).collect();
        o.caps = Some(sp(&c));
    }
    o.find_iter = re.find_iter(t).map(|m| (m.start(), m.end())).collect();
    o.caps_iter = re.captures_iter(t).map(|c| sp(&c)).collect();
    o.split = re.split(t).map(|s| s.to_string()).collect();
    for n in 0..4 {
        o.splitn.push(re.splitn(t, n).map(|s| s.to_string()).collect());
    }
    let mut push = |c: Cow<'_, str>| {
        o.borrowed.push(matches!(c, Cow::Borrowed(_)));
        o.replaced.push(c.into_owned());
    };
    for tpl in TEMPLATES {
        for n in 0..3 {
            push(re.replacen(t, n, tpl));
        }
        push(re.replace(t, tpl));
        push(re.replace_all(t, tpl));
    }
    for n in 0..3 {
        push(re.replacen(t, n, regex::NoExpand("$1")));
        push(re.replacen(t, n, |c: &regex::Captures<'_>| format!("<{}>", &c[0])));
    }
    o
}

fn obs_fancy(re: &fancy_regex::Regex, t: &str, names: &[String]) -> Result<Obs, fancy_regex::Error> {
    use std::borrow::Cow;
    let mut o = Obs::default();
    // (an iterator of the crate that never ends must not hang the monitor)
    let cap = t.chars().count() + 3;
    o.is_match = re.is_match(t)?;
    o.find = re.find(t)?.map(|m| (m.start(), m.end()));
    if let Some(c) = re.captures(t)? {
        o.named = names.iter().map(|n| c.name(n).map(|m| (m.start(), m.end()))).collect();
        o.caps = Some(caps_of(&c));
    }
    for m in re.find_iter(t).take(cap) {
        o.find_iter.push(span_of(&m?));
    }
    for c in re.captures_iter(t).take(cap) {
        o.caps_iter.push(caps_of(&c?));
    }
    for s in re.split(t).take(cap) {
        o.split.push(s?.to_string());
    }
    for n in 0..4 {
        let mut v = vec![];
        for s in re.splitn(t, n).take(cap) {
            v.push(s?.to_string());
        }
        o.splitn.push(v);
    }
    let mut push = |c: Cow<'_, str>| {
        o.borrowed.push(matches!(c, Cow::Borrowed(_)));
        o.replaced.push(c.into_owned());
    };
    for tpl in TEMPLATES {
        for n in 0..3 {
            push(re.try_replacen(t, n, tpl)?);
        }
        push(re.replace(t, tpl));
        push(re.replace_all(t, tpl));
    }
    for n in 0..3 {
        push(re.try_replacen(t, n, NoExpand("$1"))?);
        push(re.try_replacen(t, n, |c: &fancy_regex::Captures<'_>| format!("<{}>", &c[0]))?);
    }
    Ok(o)
}

fn first_diff(a: &Obs, b: &Obs) -> (String, String, String) {
    macro_rules! f {
        ($n:ident) => {
            if a.$n != b.$n {
                return (stringify!($n).to_string(), format!("{:?}", a.$n), format!("{:?}", b.$n));
            }
        };
    }
    f!(is_match);
    f!(find);
    f!(caps);
    f!(named);
    f!(find_iter);
    f!(caps_iter);
    f!(split);
    f!(splitn);
    f!(replaced);
    f!(borrowed);
    ("?".into(), String::new(), String::new())
}

pub fn run(ctx: &Ctx) -> Outcome {
    let mut g = Gen::with_atoms(atoms(), reps(), false, false);
    g.common = true;
    let mut patterns = g.upto(ctx.tier.pick(3, 3));
    let describe;
    if ctx.tier == Tier::Thorough {
        // 4-node trees: a seeded third (the full set is ~10^5 patterns x 259 texts x ~60 calls)
        let mut rng = crate::rng::Rng::new(ctx.seed ^ 0xC04);
        let four: Vec<Node> = g.of_size(4).into_iter().filter(|_| rng.chance(1, 2)).collect();
        describe = format!("all common-syntax trees of <= 3 nodes ({}) plus a seeded half of the 4-node trees ({}) plus 60000 seeded random trees of 5-9 nodes", patterns.len(), four.len());
        patterns.extend(four);
    } else {
        describe = format!("all common-syntax trees of <= 3 nodes ({}) plus 4000 seeded random trees of 5-9 nodes", patterns.len());
    }
    // seeded random larger trees (5-9 nodes) of the same grammar
    {
        let mut rng = crate::rng::Rng::new(ctx.seed ^ 0x4C04);
        let at = atoms();
        let rp = reps();
        fn rnd(rng: &mut crate::rng::Rng, budget: usize, at: &[Node], rp: &[(u32, Option<u32>, Mode)]) -> Node {
            if budget <= 1 {
                return rng.pick(at).clone();
            }
            match rng.below(9) {
                0 | 1 | 2 => {
                    let l = 1 + rng.below((budget - 1) as u64) as usize;
                    let a = rnd(rng, l, at, rp);
                    let b = rnd(rng, budget.saturating_sub(1 + l).max(1), at, rp);
                    let mut v = vec![];
                    for n in [a, b] {
                        match n {
                            Concat(w) => v.extend(w),
                            Empty => {}
                            o => v.push(o),
                        }
                    }
                    match v.len() {
                        0 => Empty,
                        1 => v.pop().unwrap(),
                        _ => Concat(v),
                    }
                }
                3 | 4 => {
                    let l = 1 + rng.below((budget - 1) as u64) as usize;
                    let a = rnd(rng, l, at, rp);
                    let b = rnd(rng, budget.saturating_sub(1 + l).max(1), at, rp);
                    let mut v = vec![];
                    for n in [a, b] {
                        match n {
                            Alt(w) => v.extend(w),
                            o => v.push(o),
                        }
                    }
                    Alt(v)
                }
                5 => Node::group(rnd(rng, budget - 1, at, rp)),
                6 => NonCap(Box::new(rnd(rng, budget - 1, at, rp))),
                _ => {
                    let c = rnd(rng, budget - 1, at, rp);
                    if !gen::repeatable(&c) {
                        return c;
                    }
                    let (lo, hi, m) = *rng.pick(rp);
                    Repeat(Box::new(c), lo, hi, m)
                }
            }
        }
        let n = ctx.tier.pick(4_000, 60_000);
        for _ in 0..n {
            let b = 5 + rng.below(5) as usize;
            patterns.push(rnd(&mut rng, b, &at, &rp));
        }
    }
    let texts = gen::texts(&["a", "A", "b", " ", "\n", "é", "-"], 3);
    // work items: (pattern, index of its text set); set 0 = the common texts
    let mut text_sets: Vec<Vec<String>> = vec![texts.clone()];
    let mut items: Vec<(Node, usize)> = patterns.into_iter().map(|p| (p, 0)).collect();
    // (a) letters whose case fold has another UTF-8 length (k / KELVIN SIGN, s / LONG S), with and
    // without (?i), next to word boundaries (VM route) and alone (wrapped route)
    {
        let fold_atoms = vec![
            Node::lit("k"), Node::lit("s"), Node::lit("K"), Node::lit("\u{212a}"), Node::lit("\u{17f}"), Node::lit("ks"), Node::class("[ks]"), Node::class("\\w"),
            Assert(A::WordB), Assert(A::NotWordB), Assert(A::WordEnd), Flags("i".into(), "".into(), None), Any(false),
        ];
        let mut g2 = Gen::with_atoms(fold_atoms, vec![(0, Some(1), Mode::Greedy), (1, None, Mode::Greedy), (2, Some(2), Mode::Greedy), (0, None, Mode::Lazy)], false, false);
        g2.common = true;
        let fold = g2.upto(3);
        text_sets.push(gen::texts(&["k", "K", "\u{212a}", "s", "\u{17f}", " "], 3));
        let set = text_sets.len() - 1;
        for p in fold {
            // the flag in front of everything, and scoped around the whole pattern
            items.push((Concat(vec![Flags("i".into(), "".into(), None), p.clone()]), set));
            items.push((p, set));
        }
    }
    let n_fold = items.iter().filter(|(_, s)| *s != 0).count();
    // (b) counted repeats with bounds of two to four digits, texts around the bound
    let n_big;
    {
        let fam = gen::big_count_family(ctx.tier.pick(1100, 1100));
        n_big = fam.len();
        for (p, t) in fam {
            // only the members written in the common syntax
            if !p.any(&|n| matches!(n, Look(..) | Backref(_) | Atomic(_))) {
                text_sets.push(t);
                items.push((p, text_sets.len() - 1));
            }
        }
    }
    // (c) wide match state: 3-8 groups in a counted loop next to a word boundary (VM route)
    let n_wide;
    {
        let fam = gen::wide_group_family(ctx.seed, ctx.tier.pick(600, 6_000), false);
        n_wide = fam.len();
        for (p, t) in fam {
            text_sets.push(t);
            items.push((p, text_sets.len() - 1));
        }
    }
    // (d) a literal loop behind a literal prefix in front of a continuation that needs a give-back
    let n_loop;
    {
        let fam = gen::literal_loop_family();
        n_loop = fam.len();
        text_sets.push(gen::texts(&["a", "b", "-"], 4));
        let set = text_sets.len() - 1;
        for p in fam {
            items.push((p, set));
        }
    }
    // (e) alternations whose branches share a leading element (finding FY shows where the VM
    // compiles the alternation itself: a word boundary in a branch)
    let n_cpa;
    {
        let fam: Vec<Node> = gen::common_prefix_alt_family().into_iter().filter(|p| !p.any(&|n| matches!(n, Look(..) | Backref(_)))).collect();
        n_cpa = fam.len();
        text_sets.push(gen::texts(&["a", "b", "-"], 4));
        let set = text_sets.len() - 1;
        for p in fam {
            items.push((p, set));
        }
    }
    let acc = par_run(&items, true, Some(20_000_000), |_, (p, set), acc| {
        let texts = &text_sets[*set];
        let s = p.print();
        let fr = compile(&s);
        let rr = catch_unwind(AssertUnwindSafe(|| regex::Regex::new(&s)));
        let (fre, rre) = match (fr, rr) {
            (Got::Val(f), Ok(Ok(r))) => (f, r),
            (Got::Panic(m), _) => {
                acc.violate(Violation::new("C04", "compile-panic", &s, "", 0, "Regex::new", "Ok or Err".into(), m));
                return;
            }
            (Got::Val(_), _) => {
                acc.count("skipped:regex-crate-rejects");
                return;
            }
            (_, Ok(Ok(_))) => {
                acc.count("skipped:fancy-regex-rejects");
                return;
            }
            _ => {
                acc.count("skipped:both-reject");
                return;
            }
        };
        let rt = route(&fre);
        acc.count(if rt.is_vm() { "route:vm" } else { "route:wrapped" });
        let names: Vec<String> = rre.capture_names().flatten().map(|n| n.to_string()).collect();
        let f1 = p.has_f1() && rt.is_vm();
        let (fl, fx) = (class_fl(p), class_fx(p));
        let known_id = if f1 { Some("F1") } else if fl { Some("FL") } else if fx { Some("FX") } else if p.has_common_prefix_alt() && rt.is_vm() { Some("FY") } else { None }.filter(|id| ctx.known.listed("C04", id));
        let mut any_match = false;
        for t in texts {
            acc.evals += 1;
            let want = obs_regex(&rre, t, &names);
            let got = guard(|| obs_fancy(&fre, t, &names));
            let _ = acc.take_hooks();
            any_match |= want.is_match;
            match got {
                Got::Val(g) if g == want => {}
                Got::Val(g) => {
                    let (api, w, o) = first_diff(&want, &g);
                    if let Some(id) = known_id {
                        acc.known_hit(id, || format!("{} on {:?}: {} = {} (regex crate: {})", s, t, api, o, w));
                    } else {
                        acc.violate(Violation::new("C04", "regex-crate-oracle", &s, t, 0, &api, w, o));
                    }
                }
                other => {
                    if let (Some(id), false) = (known_id, other.is_panic()) {
                        acc.known_hit(id, || format!("{} on {:?}: {}", s, t, other.show()));
                    } else {
                        acc.violate(Violation::new("C04", "regex-crate-oracle", &s, t, 0, "all", "the regex crate's results".into(), other.show()));
                    }
                }
            }
        }
        let has_wb = p.any(&|n| matches!(n, Assert(A::WordB | A::NotWordB | A::WordStart | A::WordEnd)));
        let has_flag = p.any(&|n| matches!(n, Flags(..)));
        if any_match && (has_wb || has_flag) {
            acc.distinct += 1;
            acc.sample(2, || json!({"pattern": s, "route": if rt.is_vm() {"vm"} else {"wrapped"}, "calls_per_text": 60}));
        }
    });
    let mut acc = acc;
    for id in ["F1", "FX", "FL"] {
        crate::diff::run_witnesses(ctx, "C04", id, &mut acc);
    }
    let mut out = Outcome::new(acc);
    out.distinct_nontrivial = out.acc.distinct;
    out.rule = format!("{} over literals a A b é space -, . [ab] [^a] [a ] [a\\-b] [+\\-.] [\\]a\\^] [^\\s\\d] [[:alpha:]&&[^b]] [\\x61-b] \\w \\s \\d, ^ $ (?m:^) (?m:$) \\b \\B \\< \\>, groups, named groups, scoped and inline flags i s m x U -i, \\A \\z, greedy/lazy quantifiers; a pattern either crate rejects is counted and skipped; every remaining pattern x all {} texts over {{a,A,b,space,\\n,é,-}} up to length 3 x is_match, find, captures (+names), find_iter, captures_iter, split, splitn(0..3), replacen(0..2)/replace/replace_all with 7 templates, NoExpand and a closure. Plus {} patterns of <= 3 nodes over k s K KELVIN-SIGN LONG-S [ks] \\w \\b \\B \\> (?i) (with and without a leading (?i)) x all texts over those letters up to length 3, and the common-syntax members of {} counted-repeat patterns with bounds 10-1100 x texts around the bound, and {} seeded patterns with 3-8 groups in a counted loop next to \\b / \\B with a failing tail and a fallback alternative, and {} patterns 'two literals, a greedy loop over one literal, a continuation, a word boundary' x all texts over a b - up to length 4, and {} alternations whose branches start with the same element (family of finding FY) x the same texts. Non-trivial: a pattern with a word-boundary assertion (VM route) or a flag group that matched at least one text.", describe, texts.len(), n_fold, n_big, n_wide, n_loop, n_cpa);
    out.assumptions = vec!["the regex crate is the oracle; both crates share regex-automata, so a fault inside it is invisible here".into()];
    let (vm, wr) = (out.acc.get("route:vm"), out.acc.get("route:wrapped"));
    out.extra = json!({"routes": {"vm": vm, "wrapped": wr}});
    out.require(vm > 0 && wr > 0, "both routes must be exercised");
    out
}
