//! C12 — template expansion follows the documented $-syntax and escape round-trips.
//! Model: an independent expander written from the documentation of Captures::expand and
//! Expander::python.
use crate::common::*;
use crate::rng::Rng;
use fancy_regex::{Captures, Expander, Regex};
use serde_json::json;
use std::sync::atomic::{AtomicU64, Ordering};

const ALPHA: [&str; 14] = ["$", "{", "}", "\\", "g", "<", ">", "0", "1", "9", "x", "_", "é", " "];
/// wider alphabet for the seeded random templates: identifier characters are "letters, digits or
/// underscores" in the Unicode sense, so non-ASCII digits and letters, and characters that are
/// neither, belong in the workload
const WIDE: [&str; 26] = ["$", "$", "{", "}", "\\", "\\", "g", "<", ">", "0", "1", "9", "x", "_", "é", " ", "٣", "²", "π", "１", "-", "·", "\u{301}", "😀", "ⅷ", "x٣"];

fn is_id(c: char) -> bool {
    c.is_alphanumeric() || c == '_'
}

#[derive(Debug, Clone, PartialEq, Eq)]
enum Piece {
    Text(String),
    Ref(String),
}

/// default syntax: `$$`, `${name}`, `$name` (longest identifier), anything else verbatim
fn parse_default(t: &str) -> Vec<Piece> {
    let cs: Vec<char> = t.chars().collect();
    let mut out = vec![];
    let mut i = 0;
    let mut lit = String::new();
    while i < cs.len() {
        if cs[i] != '$' {
            lit.push(cs[i]);
            i += 1;
            continue;
        }
        if i + 1 < cs.len() && cs[i + 1] == '$' {
            lit.push('$');
            i += 2;
            continue;
        }
        // ${name}
        if i + 1 < cs.len() && cs[i + 1] == '{' {
            let mut j = i + 2;
            while j < cs.len() && is_id(cs[j]) {
                j += 1;
            }
            if j > i + 2 && j < cs.len() && cs[j] == '}' {
                out.push(Piece::Text(std::mem::take(&mut lit)));
                out.push(Piece::Ref(cs[i + 2..j].iter().collect()));
                i = j + 1;
                continue;
            }
        }
        // $name: longest identifier
        let mut j = i + 1;
        while j < cs.len() && is_id(cs[j]) {
            j += 1;
        }
        if j > i + 1 {
            out.push(Piece::Text(std::mem::take(&mut lit)));
            out.push(Piece::Ref(cs[i + 1..j].iter().collect()));
            i = j;
            continue;
        }
        lit.push('$');
        i += 1;
    }
    out.push(Piece::Text(lit));
    out
}

/// python syntax: `\\`, `\N` (longest number), `\g<name>`, anything else verbatim
fn parse_python(t: &str) -> Vec<Piece> {
    let cs: Vec<char> = t.chars().collect();
    let mut out = vec![];
    let mut i = 0;
    let mut lit = String::new();
    while i < cs.len() {
        if cs[i] != '\\' {
            lit.push(cs[i]);
            i += 1;
            continue;
        }
        if i + 1 < cs.len() && cs[i + 1] == '\\' {
            lit.push('\\');
            i += 2;
            continue;
        }
        if i + 2 < cs.len() && cs[i + 1] == 'g' && cs[i + 2] == '<' {
            let mut j = i + 3;
            while j < cs.len() && is_id(cs[j]) {
                j += 1;
            }
            if j > i + 3 && j < cs.len() && cs[j] == '>' {
                out.push(Piece::Text(std::mem::take(&mut lit)));
                out.push(Piece::Ref(cs[i + 3..j].iter().collect()));
                i = j + 1;
                continue;
            }
        }
        let mut j = i + 1;
        while j < cs.len() && cs[j].is_ascii_digit() {
            j += 1;
        }
        if j > i + 1 {
            let digits: String = cs[i + 1..j].iter().collect();
            if digits.parse::<usize>().is_ok() {
                out.push(Piece::Text(std::mem::take(&mut lit)));
                out.push(Piece::Ref(format!("#{}", digits)));
                i = j;
                continue;
            }
        }
        lit.push('\\');
        i += 1;
    }
    out.push(Piece::Text(lit));
    out
}

struct CapSet {
    pattern: &'static str,
    text: &'static str,
    /// group texts by index (None = did not participate)
    groups: Vec<Option<&'static str>>,
    names: Vec<(&'static str, usize)>,
}

fn resolve(set: &CapSet, r: &str) -> (String, bool) {
    // (text, refers to an existing group)
    if let Some(num) = r.strip_prefix('#') {
        let n: usize = num.parse().unwrap();
        return (set.groups.get(n).copied().flatten().unwrap_or("").to_string(), n < set.groups.len());
    }
    if let Some((_, ix)) = set.names.iter().find(|(n, _)| *n == r) {
        return (set.groups[*ix].unwrap_or("").to_string(), true);
    }
    if let Ok(n) = r.parse::<usize>() {
        return (set.groups.get(n).copied().flatten().unwrap_or("").to_string(), n < set.groups.len());
    }
    (String::new(), false)
}

fn expand_model(set: &CapSet, pieces: &[Piece]) -> (String, bool, bool) {
    let mut out = String::new();
    let mut all_exist = true;
    let mut substituted = false;
    for p in pieces {
        match p {
            Piece::Text(t) => out.push_str(t),
            Piece::Ref(r) => {
                let (t, exists) = resolve(set, r);
                all_exist &= exists;
                substituted |= !t.is_empty();
                out.push_str(&t);
            }
        }
    }
    (out, all_exist, substituted)
}

fn sets() -> Vec<CapSet> {
    vec![
        CapSet { pattern: "(?<x>a)(?<_>b)?(?<é>c)(?<1x>d)", text: "-acd-", groups: vec![Some("acd"), Some("a"), None, Some("c"), Some("d")], names: vec![("x", 1), ("_", 2), ("é", 3), ("1x", 4)] },
        CapSet { pattern: "(?<x>a)(?<_>b)?(?<é>c)(?<1x>d)(?=)", text: "-acd-", groups: vec![Some("acd"), Some("a"), None, Some("c"), Some("d")], names: vec![("x", 1), ("_", 2), ("é", 3), ("1x", 4)] },
        CapSet { pattern: "(a)(b)?(c)(d)(e)(f)(g)(h)(i)(j)", text: "acdefghij", groups: vec![Some("acdefghij"), Some("a"), None, Some("c"), Some("d"), Some("e"), Some("f"), Some("g"), Some("h"), Some("i"), Some("j")], names: vec![] },
        CapSet { pattern: "(?<g>é+)(?<x9>😀)?(?<x>\\b)", text: "éé", groups: vec![Some("éé"), Some("éé"), None, Some("")], names: vec![("g", 1), ("x9", 2), ("x", 3)] },
        // digit-only names: a reference is looked up as a name first, then as an index
        CapSet { pattern: "(?<2>a)(?<0>b)(?<x>c)(?<9>d)?", text: "abc", groups: vec![Some("abc"), Some("a"), Some("b"), Some("c"), None], names: vec![("2", 1), ("0", 2), ("x", 3), ("9", 4)] },
        CapSet { pattern: "(?<x٣>a)(?<π>b)(?<x>c)(?<１>d)?", text: "abc", groups: vec![Some("abc"), Some("a"), Some("b"), Some("c"), None], names: vec![("x٣", 1), ("π", 2), ("x", 3), ("１", 4)] },
    ]
}

fn template(mut idx: u64, len: usize) -> String {
    let mut s = String::new();
    for _ in 0..len {
        s.push_str(ALPHA[(idx % 14) as usize]);
        idx /= 14;
    }
    s
}

struct ShortWriter {
    buf: Vec<u8>,
    chunk: usize,
}
impl std::io::Write for ShortWriter {
    fn write(&mut self, b: &[u8]) -> std::io::Result<usize> {
        let n = b.len().min(self.chunk);
        self.buf.extend_from_slice(&b[..n]);
        Ok(n)
    }
    fn flush(&mut self) -> std::io::Result<()> {
        Ok(())
    }
}

struct Fix<'a> {
    set: &'a CapSet,
    re: Regex,
    caps: Captures<'a>,
}

pub fn run(ctx: &Ctx) -> Outcome {
    let maxlen = ctx.tier.pick(5, 6);
    let all_sets = sets();
    let mut work: Vec<(usize, u64, u64)> = vec![]; // (len, start, end) chunks
    for len in 0..=maxlen {
        let total = 14u64.pow(len as u32);
        let chunk = 50_000;
        let mut s = 0;
        while s < total {
            work.push((len, s, (s + chunk).min(total)));
            s += chunk;
        }
    }
    // seeded random longer templates
    let n_random = ctx.tier.pick(1_500_000u64, 5_000_000);
    let rchunks = 16;
    for i in 0..rchunks {
        work.push((usize::MAX, i, n_random / rchunks));
    }
    // group numbers whose slot arithmetic would wrap or that do not fit usize
    work.push((usize::MAX - 1, 0, 0));
    let route_seen = AtomicU64::new(0);
    let fixture_failures = AtomicU64::new(0);
    let acc = par_run(&work, false, None, |_, &(len, a, b), acc| {
        let fixes: Vec<Fix<'_>> = all_sets
            .iter()
            .filter_map(|set| {
                // a capture set whose pattern no longer compiles (or no longer yields the assumed
                // groups) cannot judge expansion; it is skipped and counted, the others go on
                let re = match Regex::new(set.pattern) {
                    Ok(re) => re,
                    Err(_) => {
                        fixture_failures.fetch_or(1, Ordering::Relaxed);
                        return None;
                    }
                };
                if route(&re).is_vm() {
                    route_seen.fetch_or(1, Ordering::Relaxed);
                } else {
                    route_seen.fetch_or(2, Ordering::Relaxed);
                }
                let caps = match re.captures(set.text) {
                    Ok(Some(c)) => c,
                    _ => {
                        fixture_failures.fetch_or(1, Ordering::Relaxed);
                        return None;
                    }
                };
                // the fixture itself must report the groups the model assumes
                for (i, g) in set.groups.iter().enumerate() {
                    if caps.get(i).map(|m| m.as_str()) != *g {
                        fixture_failures.fetch_or(1, Ordering::Relaxed);
                        return None;
                    }
                }
                Some(Fix { set, re, caps })
            })
            .collect();
        let dflt = Expander::default();
        let py = Expander::python();
        let mut rng = Rng::new(ctx.seed ^ a.wrapping_mul(0x1234567));
        let mut one = |acc: &mut Acc, tpl: &str| {
            for f in &fixes {
                for (which, ex, pieces) in [("default", &dflt, parse_default(tpl)), ("python", &py, parse_python(tpl))] {
                    acc.evals += 1;
                    let (want, all_exist, substituted) = expand_model(f.set, &pieces);
                    let got = guard_plain(|| {
                        let mut outs: Vec<(&'static str, String)> = vec![];
                        outs.push(("expansion", ex.expansion(tpl, &f.caps)));
                        let mut dst = String::from("¤");
                        ex.append_expansion(&mut dst, tpl, &f.caps);
                        outs.push(("append_expansion", dst.strip_prefix('¤').map(|s| s.to_string()).unwrap_or(format!("<prefix lost>{}", dst))));
                        let mut v: Vec<u8> = vec![];
                        ex.write_expansion(&mut v, tpl, &f.caps).expect("write to Vec");
                        outs.push(("write_expansion", String::from_utf8_lossy(&v).into_owned()));
                        // a writer that accepts at most 1 (then 3) bytes per call: write_expansion
                        // must still deliver everything (Write::write may write short)
                        for chunk in [1usize, 3] {
                            let mut w = ShortWriter { buf: vec![], chunk };
                            ex.write_expansion(&mut w, tpl, &f.caps).expect("write to short writer");
                            outs.push((if chunk == 1 { "write_expansion (1 byte per write)" } else { "write_expansion (3 bytes per write)" }, String::from_utf8_lossy(&w.buf).into_owned()));
                        }
                        let mut v: Vec<u8> = vec![];
                        ex.write_expansion_vec(&mut v, tpl, &f.caps).expect("write to Vec");
                        outs.push(("write_expansion_vec", String::from_utf8_lossy(&v).into_owned()));
                        if which == "default" {
                            let mut d = String::from("¤");
                            f.caps.expand(tpl, &mut d);
                            outs.push(("Captures::expand", d.strip_prefix('¤').map(|s| s.to_string()).unwrap_or(format!("<prefix lost>{}", d))));
                        }
                        let checked = ex.check(tpl, &f.re).is_ok();
                        let esc = ex.escape(tpl).into_owned();
                        let round = ex.expansion(&esc, &f.caps);
                        (outs, checked, round)
                    });
                    match got {
                        Got::Val((outs, checked, round)) => {
                            for (api, o) in outs {
                                if o != want {
                                    let mut v = Violation::new("C12", "expansion-model", f.set.pattern, f.set.text, 0, &format!("{} ({} syntax)", api, which), format!("{:?}", want), format!("{:?}", o));
                                    v.options = json!({"template": tpl});
                                    acc.violate(v);
                                }
                            }
                            if round != tpl {
                                let mut v = Violation::new("C12", "escape-round-trip", f.set.pattern, f.set.text, 0, &format!("expansion(escape(s)) ({} syntax)", which), format!("{:?}", tpl), format!("{:?}", round));
                                v.options = json!({"template": tpl});
                                acc.violate(v);
                            }
                            if checked && !all_exist {
                                let mut v = Violation::new("C12", "check", f.set.pattern, "", 0, &format!("Expander::check ({} syntax)", which), "Err: a reference names no existing group".into(), "Ok".into());
                                v.options = json!({"template": tpl, "references": format!("{:?}", pieces)});
                                acc.violate(v);
                            }
                            if checked {
                                acc.count("check-accepted");
                            }
                            if substituted {
                                acc.count("expansions-with-nonempty-substitution");
                            }
                        }
                        o => {
                            let mut v = Violation::new("C12", "panic", f.set.pattern, f.set.text, 0, "expander", "a string".into(), o.show());
                            v.options = json!({"template": tpl});
                            acc.violate(v);
                        }
                    }
                }
            }
            let has_subst = parse_default(tpl).iter().any(|p| matches!(p, Piece::Ref(_))) || parse_python(tpl).iter().any(|p| matches!(p, Piece::Ref(_)));
            if has_subst {
                acc.distinct += 1;
                acc.sample(1, || json!({"template": tpl, "default_model": format!("{:?}", parse_default(tpl))}));
            }
        };
        if len == usize::MAX - 1 {
            // things that look almost like a reference and must be copied verbatim (or resolved
            // exactly as documented): signs, dots, spaces and empty names inside the delimiters
            for tpl in [
                "${-}", "${-1}", "${-12}x", "${+1}", "${1-}", "${-a}", "$-1", "${ 1}", "${1 }", "${1.}", "${.}", "${}", "${{1}}", "$ {1}", "\\g<-1>", "\\g<-12>", "\\g<+1>", "\\g<1->", "\\g< 1>", "\\g<>", "\\g<1", "\\g1", "\\-1",
                "a${-1}b$1", "${1}${-1}", "\\g<1>\\g<-1>", "${x-y}", "\\g<x-y>",
            ] {
                one(acc, tpl);
                acc.count("near-miss-templates");
            }
            for n in ["4294967296", "4294967297", "9223372036854775807", "9223372036854775808", "9223372036854775809", "18446744073709551614", "18446744073709551615", "18446744073709551616", "99999999999999999999", "340282366920938463463374607431768211456"] {
                for tpl in [format!("${}", n), format!("<${{{}}}>", n), format!("${} $0", n), format!("\\{}", n), format!("\\g<{}>x", n), format!("a${}b\\g<{}>", n, n)] {
                    one(acc, &tpl);
                    acc.count("templates-with-huge-group-numbers");
                }
            }
        } else if len == usize::MAX {
            for _ in 0..b {
                let l = 2 + rng.below(13) as usize;
                let tpl: String = if rng.chance(1, 2) { (0..l).map(|_| *rng.pick(&WIDE)).collect() } else { (0..l.max(7)).map(|_| *rng.pick(&ALPHA)).collect() };
                one(acc, &tpl);
            }
        } else {
            for idx in a..b {
                one(acc, &template(idx, len));
            }
        }
    });
    let mut out = Outcome::new(acc);
    out.distinct_nontrivial = out.acc.distinct;
    out.exhaustive = true;
    out.rule = format!("all templates over the 14 symbols $ {{ }} \\ g < > 0 1 9 x _ é space up to length {} (exhaustive, {} templates) plus {} seeded random ones of length 2-16, plus 60 templates with group numbers around 2^32, 2^63, 2^64 and beyond and 28 near-miss references with signs, blanks, dots or nothing inside the delimiters, half of the random ones over a wider alphabet with non-ASCII digits / letters / marks (٣ ² π １ · ⅷ combining acute, emoji); x 6 capture sets (named incl. digit-only names, a group literally named 1x and an unmatched group, on both routes; 10 numbered groups; multi-byte and empty group texts) x both expanders x expansion / append_expansion / write_expansion (into a Vec and into writers that take 1 or 3 bytes per call) / write_expansion_vec / Captures::expand against the model and each other; expansion(escape(s)) = s; check = Ok => every reference the model extracts names an existing group. Non-trivial: distinct templates containing >= 1 substitution under either syntax.", maxlen, (0..=maxlen).map(|l| 14u64.pow(l as u32)).sum::<u64>(), n_random);
    out.assumptions = vec!["the model (c12.rs parse_default / parse_python) is written from the documentation of Captures::expand and Expander::python".into()];
    let rs = route_seen.load(Ordering::Relaxed);
    let subst = out.acc.get("expansions-with-nonempty-substitution");
    out.extra = json!({"capture_sets": all_sets.iter().map(|s| s.pattern).collect::<Vec<_>>()});
    out.require(rs == 3, "capture sets must cover both the wrapped and the VM route");
    if fixture_failures.load(Ordering::Relaxed) != 0 {
        out.acc.count("capture-sets-unusable (pattern does not compile or groups differ from the fixture)");
        out.require(false, "a capture-set fixture is unusable on this tree (its pattern does not compile or reports other groups); the remaining sets were still checked");
    }
    out.require(subst > 0, "no substitution resolved to a non-empty group");
    out
}
