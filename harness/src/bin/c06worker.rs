//! C06 worker process: compiles every input of a shard under the panic / allocation / stack
//! monitors. Runs in its own process so that aborts (allocation cap, native stack overflow) are
//! observable by the parent. Usage: c06worker <inputs.jsonl> <progress-file> <out.jsonl> [start]
use std::alloc::{GlobalAlloc, Layout, System};
use std::io::Write;
use std::sync::atomic::{AtomicUsize, Ordering::Relaxed};

static LIVE: AtomicUsize = AtomicUsize::new(0);
static PEAK: AtomicUsize = AtomicUsize::new(0);
static MAXREQ: AtomicUsize = AtomicUsize::new(0);
static COUNT: AtomicUsize = AtomicUsize::new(0);
static CAP: AtomicUsize = AtomicUsize::new(usize::MAX);

struct Counting;

fn report(kind: &[u8], req: usize, live: usize) {
    // no allocation in here: format into a stack buffer and write to fd 2
    let mut buf = [0u8; 96];
    let mut n = 0;
    let mut put = |b: &[u8], n: &mut usize| {
        for &c in b {
            if *n < buf.len() {
                buf[*n] = c;
                *n += 1;
            }
        }
    };
    put(kind, &mut n);
    for (label, v) in [(&b" request="[..], req), (&b" live="[..], live)] {
        put(label, &mut n);
        let mut digits = [0u8; 20];
        let mut k = 0;
        let mut x = v;
        loop {
            digits[k] = b'0' + (x % 10) as u8;
            k += 1;
            x /= 10;
            if x == 0 {
                break;
            }
        }
        while k > 0 {
            k -= 1;
            put(&digits[k..k + 1], &mut n);
        }
    }
    put(b"\n", &mut n);
    use std::os::unix::io::FromRawFd;
    let mut f = unsafe { std::fs::File::from_raw_fd(2) };
    let _ = f.write_all(&buf[..n]);
    std::mem::forget(f);
}

unsafe impl GlobalAlloc for Counting {
    unsafe fn alloc(&self, l: Layout) -> *mut u8 {
        let sz = l.size();
        let live = LIVE.fetch_add(sz, Relaxed) + sz;
        if live > CAP.load(Relaxed) {
            LIVE.fetch_sub(sz, Relaxed);
            report(b"ALLOC-CAP", sz, live);
            return std::ptr::null_mut();
        }
        PEAK.fetch_max(live, Relaxed);
        MAXREQ.fetch_max(sz, Relaxed);
        COUNT.fetch_add(1, Relaxed);
        System.alloc(l)
    }
    unsafe fn dealloc(&self, p: *mut u8, l: Layout) {
        LIVE.fetch_sub(l.size(), Relaxed);
        System.dealloc(p, l)
    }
    unsafe fn realloc(&self, p: *mut u8, l: Layout, new: usize) -> *mut u8 {
        let old = l.size();
        if new > old {
            let live = LIVE.fetch_add(new - old, Relaxed) + (new - old);
            if live > CAP.load(Relaxed) {
                LIVE.fetch_sub(new - old, Relaxed);
                report(b"ALLOC-CAP", new, live);
                return std::ptr::null_mut();
            }
            PEAK.fetch_max(live, Relaxed);
            MAXREQ.fetch_max(new, Relaxed);
        } else {
            LIVE.fetch_sub(old - new, Relaxed);
        }
        COUNT.fetch_add(1, Relaxed);
        System.realloc(p, l, new)
    }
}

#[global_allocator]
static A: Counting = Counting;

pub const BASE_ALLOWANCE: usize = 64 << 20;
pub const PER_BYTE_ALLOWANCE: usize = 2 << 20;

fn main() {
    std::panic::set_hook(Box::new(|_| {}));
    let args: Vec<String> = std::env::args().collect();
    let inputs: Vec<String> = std::fs::read_to_string(&args[1]).expect("inputs").lines().map(|l| serde_json::from_str::<String>(l).expect("json string")).collect();
    let progress_path = args[2].clone();
    let out_path = args[3].clone();
    let start: usize = args.get(4).and_then(|s| s.parse().ok()).unwrap_or(0);
    let measure = args.get(5).map(|s| s == "measure").unwrap_or(false);
    // default 2 MiB thread stack: what a user calling Regex::new on a spawned thread has
    let h = std::thread::Builder::new()
        .stack_size(2 << 20)
        .spawn(move || {
            use std::os::unix::fs::FileExt;
            let progress = std::fs::OpenOptions::new().create(true).write(true).open(&progress_path).expect("progress file");
            let mut out = std::io::BufWriter::new(std::fs::OpenOptions::new().create(true).append(true).open(&out_path).expect("out file"));
            let mut summary = frmon::c06::Summary::default();
            for (i, input) in inputs.iter().enumerate().skip(start) {
                let _ = progress.write_all_at(format!("{:>12}", i).as_bytes(), 0);
                let base = LIVE.load(Relaxed);
                PEAK.store(base, Relaxed);
                MAXREQ.store(0, Relaxed);
                let c0 = COUNT.load(Relaxed);
                CAP.store(base + BASE_ALLOWANCE + PER_BYTE_ALLOWANCE * input.len(), Relaxed);
                let r = frmon::c06::monitored_compile(input);
                CAP.store(usize::MAX, Relaxed);
                let peak = PEAK.load(Relaxed).saturating_sub(base);
                let allocs = COUNT.load(Relaxed) - c0;
                summary.note(i, input, &r, peak, MAXREQ.load(Relaxed), allocs);
                if measure {
                    let outcome = match &r.out {
                        frmon::c06::CompileOut::Ok { vm } => format!("ok vm={}", vm),
                        frmon::c06::CompileOut::Err { kind, .. } => format!("err {}", kind),
                        frmon::c06::CompileOut::Panic(_) => "panic".to_string(),
                    };
                    let _ = writeln!(out, "{}", serde_json::json!({"measure": {"input": input, "peak": peak, "allocs": allocs, "outcome": outcome}}));
                }
                if let Some(v) = r.violation() {
                    let _ = writeln!(out, "{}", serde_json::json!({"violation": v, "index": i, "input": input}));
                    let _ = out.flush();
                }
            }
            let _ = progress.write_all_at(format!("{:>12}", "done").as_bytes(), 0);
            let _ = writeln!(out, "{}", serde_json::json!({"summary": summary.json()}));
            let _ = out.flush();
        })
        .unwrap();
    if h.join().is_err() {
        std::process::exit(3);
    }
}
