//! C20 — backtracking restores, and atomic commit preserves, exactly the right state.
//! (1) operation sequences on the real `State` (hook H2) against a whole-state-copy model;
//! (2) program-level lock-step shadow (hook H3) during real VM runs.
use crate::common::*;
use crate::gen;
#[allow(unused_imports)]
use crate::rng::Rng;
use crate::spaces;
use serde_json::json;
#[allow(unused_imports)]
use std::collections::HashSet;
#[allow(unused_imports)]
use std::hash::{Hash, Hasher};

const NSLOTS: usize = 3;
const UNSET: usize = usize::MAX;

#[derive(Clone, Copy, Debug, PartialEq, Eq, Hash)]
enum Op {
    Push,
    Pop,
    Save(u8, u8),
    Begin,
    End,
    RawPush,
    RawPop,
}

#[derive(Clone, Debug, PartialEq, Eq, Hash)]
struct Snap {
    pc: usize,
    ix: usize,
    slots: [usize; NSLOTS],
    aux: Vec<(usize, bool)>,
}

/// Reference model: every branch stores a full copy of the state at its creation.
#[derive(Clone, Debug, PartialEq, Eq, Hash)]
struct Model {
    slots: [usize; NSLOTS],
    /// (value, is_atomic_entry)
    aux: Vec<(usize, bool)>,
    branches: Vec<Snap>,
    next_id: usize,
}

impl Model {
    fn new() -> Model {
        Model { slots: [UNSET; NSLOTS], aux: vec![], branches: vec![], next_id: 1 }
    }
    fn valid(&self, op: Op) -> bool {
        match op {
            Op::Pop => !self.branches.is_empty(),
            Op::End => matches!(self.aux.last(), Some((_, true))),
            Op::RawPop => matches!(self.aux.last(), Some((_, false))),
            _ => true,
        }
    }
}

#[cfg(feature = "hooks")]
mod imp {
    use super::*;
    use fancy_regex::internal::verif::VerifState;

    #[derive(Default)]
    pub struct SeqStats {
        pub nodes: u64,
        pub cuts: u64,
        pub cuts_multi: u64,
        pub cuts_multi_same_slot: u64,
        pub pops: u64,
        pub states: HashSet<u64>,
        pub fault: Option<String>,
        pub shadow_checks: u64,
        pub shadow_faults: u64,
    }

    /// Apply one operation to the real state and the model; compare everything observable.
    pub fn apply(real: &mut VerifState, m: &mut Model, op: Op, st: &mut SeqStats) -> Result<(), String> {
        match op {
            Op::Push => {
                let id = m.next_id;
                m.next_id += 1;
                m.branches.push(Snap { pc: id, ix: id * 10, slots: m.slots, aux: m.aux.clone() });
                if !real.push(id, id * 10) {
                    return Err("push refused".into());
                }
            }
            Op::Pop => {
                let snap = m.branches.pop().unwrap();
                m.slots = snap.slots;
                m.aux = snap.aux;
                st.pops += 1;
                let got = real.pop();
                if got != (snap.pc, snap.ix) {
                    return Err(format!("pop returned {:?}, the branch was created as {:?}", got, (snap.pc, snap.ix)));
                }
            }
            Op::Save(s, v) => {
                m.slots[s as usize] = v as usize;
                real.save(s as usize, v as usize);
            }
            Op::Begin => {
                m.aux.push((m.branches.len(), true));
                let c = real.backtrack_count();
                real.stack_push(c);
            }
            Op::End => {
                let (c, _) = m.aux.pop().unwrap();
                let discarded = m.branches.len() - c;
                st.cuts += 1;
                if discarded >= 2 {
                    st.cuts_multi += 1;
                    // some slot written in at least two different deltas among the discarded branches
                    for s in 0..NSLOTS {
                        let mut vals: Vec<usize> = m.branches[c..].iter().map(|b| b.slots[s]).collect();
                        vals.push(m.slots[s]);
                        vals.dedup();
                        if vals.len() >= 3 {
                            st.cuts_multi_same_slot += 1;
                            break;
                        }
                    }
                }
                m.branches.truncate(c);
                let got = real.stack_pop();
                if got != c {
                    return Err(format!("EndAtomic popped {}, the model's entry is {}", got, c));
                }
                real.backtrack_cut(got);
            }
            Op::RawPush => {
                m.aux.push((7, false));
                real.stack_push(7);
            }
            Op::RawPop => {
                let (v, _) = m.aux.pop().unwrap();
                let got = real.stack_pop();
                if got != v {
                    return Err(format!("stack_pop returned {}, expected {}", got, v));
                }
            }
        }
        for s in 0..NSLOTS {
            if real.get(s) != m.slots[s] {
                return Err(format!("slot {} = {} but the model has {}", s, real.get(s) as isize, m.slots[s] as isize));
            }
        }
        let aux: Vec<usize> = m.aux.iter().map(|(v, _)| *v).collect();
        if real.aux() != aux {
            return Err(format!("auxiliary stack {:?} but the model has {:?}", real.aux(), aux));
        }
        if real.backtrack_count() != m.branches.len() {
            return Err(format!("{} branches but the model has {}", real.backtrack_count(), m.branches.len()));
        }
        Ok(())
    }

    pub fn all_ops() -> Vec<Op> {
        let mut v = vec![Op::Push, Op::Pop, Op::Begin, Op::End, Op::RawPush, Op::RawPop];
        for s in 0..NSLOTS as u8 {
            for val in 1..=3u8 {
                v.push(Op::Save(s, val));
            }
        }
        v
    }

    pub fn dfs(real: &VerifState, m: &Model, depth: usize, ops: &[Op], trail: &mut Vec<Op>, st: &mut SeqStats) {
        if st.fault.is_some() {
            return;
        }
        st.nodes += 1;
        let mut h = std::collections::hash_map::DefaultHasher::new();
        (m.slots, &m.aux, &m.branches).hash(&mut h);
        st.states.insert(h.finish());
        if depth == 0 {
            return;
        }
        for &op in ops {
            if !m.valid(op) {
                continue;
            }
            // the last Save of a slot is the only one that matters before the next branch event:
            // two consecutive saves to the same slot are covered by the single second save
            if let (Op::Save(s, _), Some(Op::Save(ps, _))) = (op, trail.last()) {
                if s == *ps {
                    continue;
                }
            }
            let mut r2 = real.clone();
            let mut m2 = m.clone();
            trail.push(op);
            match std::panic::catch_unwind(std::panic::AssertUnwindSafe(|| apply(&mut r2, &mut m2, op, st))) {
                Ok(Ok(())) => dfs(&r2, &m2, depth - 1, ops, trail, st),
                Ok(Err(e)) => st.fault = Some(format!("{} after {:?}", e, trail)),
                Err(p) => st.fault = Some(format!("panic {} after {:?}", panic_msg(&*p), trail)),
            }
            trail.pop();
            if st.fault.is_some() {
                return;
            }
        }
    }

    pub fn random_seq(rng: &mut Rng, len: usize, ops: &[Op], st: &mut SeqStats) {
        let mut real = VerifState::new(NSLOTS, true);
        let mut m = Model::new();
        let mut trail = vec![];
        for _ in 0..len {
            let valid: Vec<Op> = ops.iter().copied().filter(|o| m.valid(*o)).collect();
            // bias towards building deep stacks before cutting
            let op = loop {
                let o = *rng.pick(&valid);
                if matches!(o, Op::Pop | Op::End) && rng.chance(1, 2) {
                    continue;
                }
                break o;
            };
            trail.push(op);
            st.nodes += 1;
            match std::panic::catch_unwind(std::panic::AssertUnwindSafe(|| apply(&mut real, &mut m, op, st))) {
                Ok(Ok(())) => {}
                Ok(Err(e)) => {
                    st.fault = Some(format!("{} after {:?}", e, trail));
                    return;
                }
                Err(p) => {
                    st.fault = Some(format!("panic {} after {:?}", panic_msg(&*p), trail));
                    return;
                }
            }
        }
        // unwind everything: every remaining branch must restore its creation state
        while !m.branches.is_empty() {
            trail.push(Op::Pop);
            if let Err(e) = apply(&mut real, &mut m, Op::Pop, st) {
                st.fault = Some(format!("{} after {:?}", e, trail));
                return;
            }
        }
        let s = real.stats();
        st.shadow_checks += s.shadow_checks;
        st.shadow_faults += s.shadow_faults;
        if s.shadow_faults > 0 && st.fault.is_none() {
            st.fault = Some(format!("lock-step shadow: {} after {:?}", s.first_fault.unwrap_or_default(), trail));
        }
    }

    /// Random sequences over a wide state (many slots, many writes per branch): the undo log
    /// then holds long runs of records per branch, which three slots can never produce.
    pub fn random_seq_wide(rng: &mut Rng, len: usize, nslots: usize, st: &mut SeqStats) {
        let mut real = VerifState::new(nslots, true);
        let mut slots = vec![usize::MAX; nslots];
        let mut aux: Vec<usize> = vec![];
        let mut branches: Vec<(usize, Vec<usize>, Vec<usize>)> = vec![];
        let mut next_id = 1usize;
        let mut trail: Vec<String> = vec![];
        let mut step = |real: &mut VerifState, slots: &mut Vec<usize>, aux: &mut Vec<usize>, branches: &mut Vec<(usize, Vec<usize>, Vec<usize>)>, what: u64, rng: &mut Rng, trail: &mut Vec<String>, st: &mut SeqStats| -> Result<(), String> {
            match what {
                0..=59 => {
                    let (s, v) = (rng.below(nslots as u64) as usize, 1 + rng.below(5) as usize);
                    trail.push(format!("save({},{})", s, v));
                    slots[s] = v;
                    real.save(s, v);
                }
                60..=74 => {
                    trail.push("push".into());
                    branches.push((next_id, slots.clone(), aux.clone()));
                    if !real.push(next_id, next_id * 10) {
                        return Err("push refused".into());
                    }
                    next_id += 1;
                }
                75..=82 if !branches.is_empty() => {
                    trail.push("pop".into());
                    let (id, sl, au) = branches.pop().unwrap();
                    *slots = sl;
                    *aux = au;
                    st.pops += 1;
                    let got = real.pop();
                    if got != (id, id * 10) {
                        return Err(format!("pop returned {:?}, the branch was created as {:?}", got, (id, id * 10)));
                    }
                }
                83..=89 => {
                    trail.push("begin".into());
                    aux.push(branches.len());
                    let c = real.backtrack_count();
                    real.stack_push(c);
                }
                90..=96 if !aux.is_empty() && *aux.last().unwrap() <= branches.len() => {
                    trail.push("end".into());
                    let c = aux.pop().unwrap();
                    st.cuts += 1;
                    if branches.len() - c >= 2 {
                        st.cuts_multi += 1;
                    }
                    branches.truncate(c);
                    let got = real.stack_pop();
                    if got != c {
                        return Err(format!("EndAtomic popped {}, the model's entry is {}", got, c));
                    }
                    real.backtrack_cut(got);
                }
                _ => return Ok(()),
            }
            for s in 0..nslots {
                if real.get(s) != slots[s] {
                    return Err(format!("slot {} = {} but the model has {}", s, real.get(s) as isize, slots[s] as isize));
                }
            }
            if real.aux() != *aux {
                return Err(format!("auxiliary stack {:?} but the model has {:?}", real.aux(), aux));
            }
            if real.backtrack_count() != branches.len() {
                return Err(format!("{} branches but the model has {}", real.backtrack_count(), branches.len()));
            }
            Ok(())
        };
        for _ in 0..len {
            st.nodes += 1;
            let what = rng.below(100);
            let r = std::panic::catch_unwind(std::panic::AssertUnwindSafe(|| step(&mut real, &mut slots, &mut aux, &mut branches, what, rng, &mut trail, st)));
            match r {
                Ok(Ok(())) => {}
                Ok(Err(e)) => {
                    st.fault = Some(format!("{} after {}", e, trail.join(" ")));
                    return;
                }
                Err(p) => {
                    st.fault = Some(format!("panic {} after {}", panic_msg(&*p), trail.join(" ")));
                    return;
                }
            }
        }
        // unwind everything (an aux entry that points above the remaining branches is dead)
        while !branches.is_empty() {
            st.nodes += 1;
            let r = std::panic::catch_unwind(std::panic::AssertUnwindSafe(|| step(&mut real, &mut slots, &mut aux, &mut branches, 75, rng, &mut trail, st)));
            match r {
                Ok(Ok(())) => {}
                Ok(Err(e)) => {
                    st.fault = Some(format!("{} after {}", e, trail.join(" ")));
                    return;
                }
                Err(p) => {
                    st.fault = Some(format!("panic {} after {}", panic_msg(&*p), trail.join(" ")));
                    return;
                }
            }
        }
        let s = real.stats();
        st.shadow_checks += s.shadow_checks;
        st.shadow_faults += s.shadow_faults;
        if s.shadow_faults > 0 && st.fault.is_none() {
            st.fault = Some(format!("lock-step shadow: {} after {}", s.first_fault.unwrap_or_default(), trail.join(" ")));
        }
    }

    pub fn sequences(ctx: &Ctx, acc: &mut Acc) -> (u64, u64, u64, serde_json::Value) {
        let depth = ctx.tier.pick(8, 9);
        let ops = all_ops();
        // distribute the DFS by its first three operations
        let mut prefixes: Vec<Vec<Op>> = vec![vec![]];
        for _ in 0..3 {
            let mut next = vec![];
            for p in &prefixes {
                let mut m = Model::new();
                let mut r = VerifState::new(NSLOTS, false);
                let mut st = SeqStats::default();
                for &o in p {
                    apply(&mut r, &mut m, o, &mut st).unwrap();
                }
                for &o in &ops {
                    if m.valid(o) && !matches!((o, p.last()), (Op::Save(s, _), Some(Op::Save(ps, _))) if s == *ps) {
                        let mut q = p.clone();
                        q.push(o);
                        next.push(q);
                    }
                }
            }
            prefixes = next;
        }
        let total = std::sync::Mutex::new(SeqStats::default());
        let sample = std::sync::Mutex::new(Vec::<String>::new());
        let a1 = par_run(&prefixes, false, None, |_, p, acc| {
            let mut m = Model::new();
            let mut r = VerifState::new(NSLOTS, false);
            let mut st = SeqStats::default();
            let mut trail = vec![];
            for &o in p {
                trail.push(o);
                if let Err(e) = apply(&mut r, &mut m, o, &mut st) {
                    st.fault = Some(format!("{} after {:?}", e, trail));
                }
            }
            dfs(&r, &m, depth - 3, &ops, &mut trail, &mut st);
            acc.evals += st.nodes;
            let mut t = total.lock().unwrap();
            t.nodes += st.nodes;
            t.cuts += st.cuts;
            t.cuts_multi += st.cuts_multi;
            t.cuts_multi_same_slot += st.cuts_multi_same_slot;
            t.pops += st.pops;
            t.states.extend(st.states);
            if let Some(f) = st.fault {
                acc.violate(Violation::new("C20", "sequence-model", "", "", 0, "State operations (exhaustive)", "the whole-state-copy model".into(), f));
            }
        });
        acc.merge(a1);
        // the 3-operation prefixes themselves were visited while building the list
        let nrand = ctx.tier.pick(100_000u64, 400_000);
        let chunks: Vec<u64> = (0..64).collect();
        let a2 = par_run(&chunks, false, None, |_, &c, acc| {
            let mut rng = Rng::new(ctx.seed ^ (c + 1).wrapping_mul(0xC20));
            let mut st = SeqStats::default();
            for i in 0..nrand / 64 {
                let len = if ctx.tier == Tier::Thorough && i % 4 == 0 { 1000 } else { 50 + rng.below(250) as usize };
                if i % 2 == 0 {
                    random_seq(&mut rng, len, &ops, &mut st);
                } else {
                    // 6, 12 or 24 slots
                    random_seq_wide(&mut rng, len, 6 << (i / 2 % 3), &mut st);
                }
                if let Some(f) = st.fault.take() {
                    acc.violate(Violation::new("C20", "sequence-model", "", "", 0, "State operations (random, shadow on)", "the whole-state-copy model".into(), f));
                    break;
                }
            }
            acc.evals += st.nodes;
            let mut t = total.lock().unwrap();
            t.cuts += st.cuts;
            t.cuts_multi += st.cuts_multi;
            t.cuts_multi_same_slot += st.cuts_multi_same_slot;
            t.shadow_checks += st.shadow_checks;
            t.pops += st.pops;
            if c == 0 {
                sample.lock().unwrap().push(format!("random sequences of 50-300 operations, e.g. seed chunk {} ran {} operations", c, st.nodes));
            }
        });
        acc.merge(a2);
        let t = total.into_inner().unwrap();
        acc.samples.push(json!({"exhaustive_dfs": {"depth": depth, "operations": format!("{:?}", ops), "prefixes": prefixes.len(), "example_prefix": format!("{:?}", prefixes[prefixes.len() / 2])}}));
        let extra = json!({"sequence_exploration": {"depth": depth, "nodes": t.nodes, "distinct_model_states": t.states.len(), "cuts": t.cuts, "cuts_discarding_>=2_branches": t.cuts_multi, "of_which_with_>=2_writes_to_one_slot": t.cuts_multi_same_slot, "pops": t.pops, "random_sequences": nrand, "shadow_checks_in_random_sequences": t.shadow_checks}});
        (t.states.len() as u64, t.cuts_multi_same_slot, t.shadow_checks, extra)
    }
}

pub fn run(ctx: &Ctx) -> Outcome {
    let mut acc = Acc::default();
    #[cfg(feature = "hooks")]
    let (states, multi_same, _sc, extra) = imp::sequences(ctx, &mut acc);
    #[cfg(not(feature = "hooks"))]
    let (states, multi_same, extra) = (0u64, 0u64, json!({}));
    // (2) program-level replay on real VM runs: contexts that commit (atomic, look-around,
    // conditions, possessive) around every small filler, plus random trees
    let mut g = gen::Gen::new(true);
    let mut patterns = gen::products(&g.upto(ctx.tier.pick(2, 3)));
    patterns.extend(gen::random_patterns(ctx.seed ^ 20, ctx.tier.pick(20_000, 100_000), true, 6, 14));
    let texts = spaces::texts_c01(3);
    let cfg = crate::sweep::SweepCfg { prop: "C20", backtrack_limit: Some(20_000), step_cap: Some(5_000_000), shadow: true, casei_every: 0 };
    let a3 = crate::sweep::sweep(&cfg, &patterns, |c, acc| {
        for t in &texts {
            for from in gen::offsets(t) {
                acc.evals += 1;
                let r = captures_from(c.re, t, from);
                let h = acc.take_hooks();
                if h.shadow_faults > 0 {
                    acc.violate(Violation::new("C20", "program-shadow", c.pattern, t, from, "captures_from_pos", "every pop restores its push; a cut keeps current values and older branches".into(), h.first_fault.unwrap_or_default()));
                }
                if r.is_panic() {
                    acc.violate(Violation::new("C20", "panic", c.pattern, t, from, "captures_from_pos", "a value or Err".into(), r.show()));
                }
                // commit discards exactly the alternatives created since ITS group was entered:
                // every EndAtomic must find the entry of its own BeginAtomic (outside finding FJ,
                // whose leaked entry comes from a conditional)
                if h.aux_mismatch > 0 && !c.node.has_cond() {
                    acc.violate(Violation::new("C20", "aux-pairing", c.pattern, t, from, "captures_from_pos", "every EndAtomic pops the entry pushed by its own BeginAtomic".into(), format!("{} EndAtomic instruction(s) consumed an entry pushed by another BeginAtomic", h.aux_mismatch)));
                }
            }
        }
    });
    acc.merge(a3);
    let mut out = Outcome::new(acc);
    out.distinct_nontrivial = states;
    out.exhaustive = true;
    out.rule = format!("(1) all valid sequences of up to {} operations {{create branch, abandon branch, write slot (3 slots x 3 values), enter atomic, commit atomic, raw push/pop on the auxiliary stack}} applied through hook H2 to the real State and to a model that stores a full copy of (slots, auxiliary stack) per branch; after every operation all slots, the auxiliary stack and the branch count are compared and abandon must return the created (pc, ix); two consecutive writes to one slot are represented by the second; plus seeded random sequences of 50-300 (thorough: also 1000) operations with the lock-step shadow on, unwound to the bottom - half of them over 3 slots, half over a wide state of 6 / 12 / 24 slots and 5 values (60% writes, so one branch carries long runs of undo records). distinct_nontrivial = distinct model states visited. (2) program-level: lock-step shadow (hook H3) and BeginAtomic / EndAtomic pairing on the auxiliary stack during real VM runs of {} committing-context products and random trees x all texts up to length 3 x every offset.", ctx.tier.pick(7, 9), patterns.len());
    out.assumptions = vec!["validity follows VM discipline: abandon only with a branch, commit only on an entry pushed by enter-atomic, raw pop only on a raw entry".into()];
    let (sc, cuts, cm, css) = (out.acc.hook.shadow_checks, out.acc.hook.cuts, out.acc.hook.cuts_multi, out.acc.hook.cuts_same_slot);
    let mut ex = extra;
    ex["program_level"] = json!({"shadow_checks": sc, "cuts": cuts, "cuts_discarding_>=2_branches": cm, "cuts_with_repeated_slot_in_discarded_log": css});
    out.extra = ex;
    out.require(HOOKS, "hooks are not compiled in: nothing to observe");
    out.require(!HOOKS || multi_same > 0, "no commit discarded >= 2 branches holding writes to one slot");
    out.require(!HOOKS || sc > 0, "program-level shadow made no comparison");
    out
}
