//! C11 — replacement rewrites exactly the first n matches and nothing else.
//! Model built from the crate's own captures_iter plus the replacer's own output.
use crate::ast::{GroupStyle, RefStyle, Style};
use crate::common::*;
use crate::diff;
use crate::gen;
use crate::refm;
use crate::spaces;
use fancy_regex::{Captures, NoExpand, Regex};
use serde_json::json;
use std::borrow::Cow;

// the last three: non-ASCII text in front of / behind a `$` (identifiers are Unicode: `$1é` names a
// group "1é"), a `$` at the very end
const TEMPLATES: [&str; 8] = ["$0", "[$1]", "${g1}", "$$", "$2-$1", "$é", "é$1", "$1é$"];

fn model(t: &str, caps: &[Captures<'_>], n: usize, out_for: &mut dyn FnMut(&Captures<'_>) -> String) -> String {
    let k = if n == 0 { caps.len() } else { n.min(caps.len()) };
    let mut w = String::new();
    let mut last = 0;
    for c in &caps[..k] {
        let m = c.get(0).unwrap();
        w.push_str(&t[last..m.start()]);
        w.push_str(&out_for(c));
        last = m.end();
    }
    w.push_str(&t[last..]);
    w
}

fn one(re: &Regex, t: &str, bound: usize) -> Result<(bool, bool), (String, String, String)> {
    let items: Vec<_> = re.captures_iter(t).take(bound).collect();
    if let Some(i_err) = items.iter().position(|c| c.is_err()) {
        // A search error among the matches that have to be replaced must come back as Err (never
        // a panic, never silently dropped); an error beyond them may or may not be reached.
        let before: Vec<Captures<'_>> = items.into_iter().take(i_err).map(|c| c.unwrap()).collect();
        for n in 0..4usize {
            let must_err = n == 0 || i_err < n;
            let must_ok = n >= 1 && i_err > n;
            let want_ok = model(t, &before, n, &mut |_| "<>".to_string());
            let results = [
                ("\"<>\"", re.try_replacen(t, n, "<>").map(|c| c.into_owned())),
                ("NoExpand(\"<>\")", re.try_replacen(t, n, NoExpand("<>")).map(|c| c.into_owned())),
                ("closure \"<>\"", re.try_replacen(t, n, |_: &Captures<'_>| "<>").map(|c| c.into_owned())),
            ];
            for (name, r) in results {
                let api = format!("try_replacen({}, {}) with a search error at match #{}", n, name, i_err);
                match r {
                    Ok(got) if must_err => return Err((api, "Err: the search error of find_iter / captures_iter".into(), format!("Ok({:?})", got))),
                    Ok(got) if must_ok && got != want_ok => return Err((api, format!("Ok({:?})", want_ok), format!("Ok({:?})", got))),
                    Err(e) if must_ok => return Err((api, format!("Ok({:?})", want_ok), format!("Err({})", err_kind(&e)))),
                    _ => {}
                }
            }
            let _ = re.try_replacen(t, n, "$1");
        }
        return Ok((false, true));
    }
    let caps: Vec<Captures<'_>> = items.into_iter().map(|c| c.unwrap()).collect();
    let spans: Vec<(usize, usize)> = caps.iter().map(|c| span_of(&c.get(0).unwrap())).collect();
    if spans.windows(2).any(|w| w[1].0 < w[0].1) {
        return Ok((false, false)); // overlapping matches: C08 / finding FK
    }
    let mut nontrivial = false;
    for n in 0..4usize {
        let chk = |api: &str, got: Result<Cow<'_, str>, fancy_regex::Error>, want: &str| -> Result<(), (String, String, String)> {
            match got {
                Err(e) => Err((api.to_string(), format!("Ok({:?})", want), format!("Err({})", err_kind(&e)))),
                Ok(g) => {
                    if g != want {
                        return Err((api.to_string(), format!("{:?}", want), format!("{:?}", g)));
                    }
                    if matches!(g, Cow::Borrowed(_)) != caps.is_empty() {
                        return Err((api.to_string(), format!("borrowed iff no match (matches: {})", caps.len()), format!("borrowed = {}", matches!(g, Cow::Borrowed(_)))));
                    }
                    Ok(())
                }
            }
        };
        // constant: template without `$` == NoExpand == closure (fast path vs captures path)
        let want = model(t, &caps, n, &mut |_| "<>".to_string());
        chk(&format!("try_replacen({}, \"<>\")", n), re.try_replacen(t, n, "<>"), &want)?;
        chk(&format!("try_replacen({}, NoExpand(\"<>\"))", n), re.try_replacen(t, n, NoExpand("<>")), &want)?;
        chk(&format!("try_replacen({}, closure \"<>\")", n), re.try_replacen(t, n, |_: &Captures<'_>| "<>"), &want)?;
        chk(&format!("try_replacen({}, String \"<>\")", n), re.try_replacen(t, n, String::from("<>")), &want)?;
        // identity closure: the text itself
        chk(&format!("try_replacen({}, identity closure)", n), re.try_replacen(t, n, |c: &Captures<'_>| c[0].to_string()), t)?;
        // NoExpand keeps `$`
        let want = model(t, &caps, n, &mut |_| "$1".to_string());
        chk(&format!("try_replacen({}, NoExpand(\"$1\"))", n), re.try_replacen(t, n, NoExpand("$1")), &want)?;
        for tpl in TEMPLATES {
            let want = model(t, &caps, n, &mut |c| {
                let mut d = String::new();
                c.expand(tpl, &mut d);
                d
            });
            chk(&format!("try_replacen({}, {:?})", n, tpl), re.try_replacen(t, n, tpl), &want)?;
        }
        let k = if n == 0 { caps.len() } else { n.min(caps.len()) };
        // replacers with state: the i-th replaced match gets the output of the i-th call, and the
        // calls see the matches in text order
        let mut j = 0;
        let want = model(t, &caps, n, &mut |_| {
            j += 1;
            format!("#{}", j)
        });
        let mut j = 0;
        let mut seen: Vec<(usize, usize)> = vec![];
        let got = re.try_replacen(t, n, |c: &Captures<'_>| {
            j += 1;
            seen.push(span_of(&c.get(0).unwrap()));
            format!("#{}", j)
        });
        chk(&format!("try_replacen({}, counting closure)", n), got, &want)?;
        if seen != spans[..k] {
            return Err((format!("try_replacen({}, recording closure)", n), format!("called for {:?} in this order", &spans[..k]), format!("called for {:?}", seen)));
        }
        // a hand-written Replacer that appends in two steps
        struct Two(usize);
        impl fancy_regex::Replacer for Two {
            fn replace_append(&mut self, caps: &Captures<'_>, dst: &mut String) {
                self.0 += 1;
                dst.push('<');
                dst.push_str(&caps[0]);
                dst.push_str(&format!(">{}", self.0));
            }
        }
        let mut j = 0;
        let want = model(t, &caps, n, &mut |c| {
            j += 1;
            format!("<{}>{}", &c[0], j)
        });
        let mut two = Two(0);
        chk(&format!("try_replacen({}, custom Replacer by_ref)", n), re.try_replacen(t, n, fancy_regex::Replacer::by_ref(&mut two)), &want)?;
        if two.0 != k {
            return Err((format!("try_replacen({}, custom Replacer by_ref)", n), format!("{} calls", k), format!("{} calls", two.0)));
        }
        nontrivial |= (k >= 1 && k < caps.len()) || spans[..k].iter().any(|(a, b)| a == b);
    }
    // the convenience wrappers
    let w1 = model(t, &caps, 1, &mut |_| "<>".to_string());
    let wall = model(t, &caps, 0, &mut |_| "<>".to_string());
    if re.replace(t, "<>") != w1 {
        return Err(("replace".into(), w1, re.replace(t, "<>").into_owned()));
    }
    if re.replace_all(t, "<>") != wall {
        return Err(("replace_all".into(), wall, re.replace_all(t, "<>").into_owned()));
    }
    if re.replacen(t, 2, "<>") != model(t, &caps, 2, &mut |_| "<>".to_string()) {
        return Err(("replacen(2)".into(), model(t, &caps, 2, &mut |_| "<>".to_string()), re.replacen(t, 2, "<>").into_owned()));
    }
    Ok((nontrivial, false))
}

/// `[$1|$2]` through a template and through a closure against the reference matcher's groups.
/// None = agreement or nothing to judge (spans differ: C08's business; reference inconclusive).
fn reference_groups(re: &Regex, r: &refm::R, ng: usize, t: &str) -> Option<(String, String, String)> {
    let bound = t.chars().count() + 4;
    let want_caps = refm::iterate(r, ng, t, refm::BUDGET, bound)?;
    let spans = match find_iter_seq(re, t, bound) {
        Got::Val(v) => v,
        _ => return None,
    };
    let want_spans: Vec<Result<(usize, usize), String>> = want_caps.iter().map(|c| Ok(c[0].unwrap())).collect();
    if spans != want_spans {
        // the matches themselves are not the reference's: whatever is replaced is then wrong too
        let want_all = {
            let mut w = String::new();
            let mut last = 0;
            for c in &want_caps {
                let (a, b) = c[0].unwrap();
                w.push_str(&t[last..a]);
                w.push_str("<>");
                last = b;
            }
            w.push_str(&t[last..]);
            w
        };
        return match guard_plain(|| re.try_replacen(t, 0, NoExpand("<>")).map(|c| c.into_owned()).map_err(|e| err_kind(&e))) {
            Got::Val(Ok(g)) if g != want_all => Some(("try_replacen(0, NoExpand(\"<>\"))".into(), format!("{:?} (the matches of the reference iteration {:?} replaced)", want_all, want_spans), format!("{:?} (find_iter yields {:?})", g, spans))),
            _ => None,
        };
    }
    let build = |unset: &str| -> String {
        let grp = |c: &refm::Caps, i: usize| -> String { c.get(i).copied().flatten().map_or(unset.to_string(), |(a, b)| format!("{}", &t[a..b])) };
        let mut want = String::new();
        let mut last = 0;
        for c in &want_caps {
            let (a, b) = c[0].unwrap();
            want.push_str(&t[last..a]);
            want.push_str(&format!("[{}|{}]", grp(c, 1), grp(c, 2)));
            last = b;
        }
        want.push_str(&t[last..]);
        want
    };
    let (want, want_marked) = (build(""), build("-"));
    let by_template = guard_plain(|| re.try_replacen(t, 0, "[$1|$2]").map(|c| c.into_owned()).map_err(|e| err_kind(&e)));
    let by_closure = guard_plain(|| {
        re.try_replacen(t, 0, |c: &Captures<'_>| format!("[{}|{}]", c.get(1).map_or("-", |m| m.as_str()), c.get(2).map_or("-", |m| m.as_str()))).map(|c| c.into_owned()).map_err(|e| err_kind(&e))
    });
    for (api, got, want) in [("try_replacen(0, \"[$1|$2]\")", by_template, want), ("try_replacen(0, closure printing groups 1 and 2, `-` for a group that did not take part)", by_closure, want_marked)] {
        match got {
            Got::Val(Ok(g)) if g == want => {}
            Got::StepCap => return None,
            o => return Some((api.to_string(), format!("{:?} (groups of the reference match path)", want), o.show())),
        }
    }
    None
}

pub fn run(ctx: &Ctx) -> Outcome {
    let sp = spaces::c01_space(ctx.tier, ctx.seed ^ 11, false, 3, 4, 2, 2, 1_500, 20_000);
    let mut patterns = sp.patterns;
    let small: Vec<_> = patterns.iter().filter(|p| p.size() <= 3).cloned().collect();
    // quick: a seeded third of the \G / \K variants (every context keeps dozens of fillers)
    let gk = gen::g_contexts(&small);
    let (tier, seed) = (ctx.tier, ctx.seed as usize);
    patterns.extend(gk.into_iter().enumerate().filter(|(i, _)| tier == Tier::Thorough || (i / 15 + seed) % 3 == 0).map(|(_, p)| p));
    let texts = spaces::texts_c01(3);
    let named = Style { group: GroupStyle::Angle, backref: RefStyle::KAngle, ..Style::default() };
    let acc = par_run(&patterns, false, Some(3_000_000), |i, p, acc| {
        if !p.refs_exist() {
            return;
        }
        // every second pattern is spelled with named groups g1, g2, .. so that ${g1} resolves
        let s = if i % 2 == 0 { p.print() } else { p.print_with(&named) };
        let mut res = vec![];
        match compile(&s) {
            Got::Val(r) => res.push(r),
            Got::Err(_) => {
                acc.count("compile-err");
                return;
            }
            o => {
                acc.violate(Violation::new("C11", "compile-panic", &s, "", 0, "Regex::new", "Ok or Err".into(), o.show()));
                return;
            }
        }
        let rt = route(&res[0]);
        // error histories: the same pattern under tiny backtrack limits
        for l in [0usize, 2] {
            if i % 3 != 0 {
                break;
            }
            if let Got::Val(r) = compile_with(&s, |b| {
                b.backtrack_limit(l);
            }) {
                res.push(r);
            }
        }
        // the captures handed to the replacer, judged independently of the crate: the reference
        // matcher's groups for the same matches (patterns with reference semantics only)
        let rfm = if diff::default_exclude(p).is_none() && !p.has_f1() && !p.has_keepout_in_lookbehind() && p.n_groups() >= 1 { refm::compile(p) } else { None };
        let mut nontrivial = false;
        for (ti, t) in texts.iter().enumerate() {
            // the larger patterns (products, random trees) get every second text, rotating
            if p.size() > 3 && (ti + i) % 2 == 1 {
                continue;
            }
            if let Some((r, ng)) = &rfm {
                let _ = acc.take_hooks();
                if let Some((api, want, got)) = reference_groups(&res[0], r, *ng, t) {
                    let h = acc.take_hooks();
                    if h.aux_mismatch > 0 && p.has_cond() && ctx.known.listed("C15", "FJ") {
                        acc.count("reference-groups:attributed-to-FJ");
                    } else {
                        acc.violate(Violation::new("C11", "replacer-sees-reference-captures", &s, t, 0, &api, want, got));
                    }
                }
            }
            for (k, re) in res.iter().enumerate() {
                if k > 0 && !rt.is_vm() {
                    break;
                }
                acc.evals += 1;
                match guard_plain(|| one(re, t, t.chars().count() + 4)) {
                    Got::Val(Ok((nt, errs))) => {
                        nontrivial |= nt;
                        if errs {
                            acc.count("error-histories");
                        }
                    }
                    Got::Val(Err((api, want, got))) => {
                        let mut v = Violation::new("C11", "replace-model", &s, t, 0, &api, want, got);
                        v.options = json!({"backtrack_limit": if k == 0 { json!("default") } else { json!((k - 1) * 2) }});
                        acc.violate(v);
                    }
                    Got::StepCap => acc.inconclusive += 1,
                    o => {
                        let mut v = Violation::new("C11", "panic", &s, t, 0, "try_replacen/replace*", "Ok or Err".into(), o.show());
                        v.options = json!({"backtrack_limit": if k == 0 { json!("default") } else { json!((k - 1) * 2) }});
                        acc.violate(v);
                    }
                }
            }
        }
        if nontrivial {
            acc.distinct += 1;
            acc.sample(2, || json!({"pattern": s}));
        }
    });
    let mut out = Outcome::new(acc);
    out.distinct_nontrivial = out.acc.distinct;
    out.rule = format!("{} + \\G/\\K variants of the small trees, every second pattern spelled with named groups; x all {} texts over {{a,b,c,é,\\n,-}} up to length 3 (patterns of more than 3 nodes: a rotating half of them) x limits 0..3 x replacers {{\"<>\" as &str / String / NoExpand / closure, identity closure, NoExpand(\"$1\"), templates $0 [$1] ${{g1}} $$ $2-$1 $é é$1 $1é$}}: result = text with the first n captures_iter matches replaced by the replacer's own output (Captures::expand for templates), other bytes untouched; Cow::Borrowed iff no match; the three spellings of a constant agree (fast path vs captures path); replacers with state (counting closure, recording closure, hand-written Replacer through by_ref): the i-th replaced match gets the i-th call's output and the calls see the matches in text order; for patterns with reference semantics and groups the output of \"[$1|$2]\" as template and as closure must show the groups of the reference matcher's path for every match; under backtrack limits 0 and 2 (every third pattern) a search error among the matches to be replaced must come back as Err, and the calls return, never panic. Non-trivial: distinct patterns where >= 1 but not all matches were replaced, or an empty match was replaced.", sp.describe, texts.len());
    out.assumptions = vec!["template expansion itself is judged by C12; find_iter by C08".into()];
    let eh = out.acc.get("error-histories");
    out.extra = json!({"error_histories": eh});
    out.require(eh > 0, "no search error was induced");
    out
}
