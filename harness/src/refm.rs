//! Reference matcher: continuation-passing, priority-ordered backtracking over the harness AST,
//! written from the documented semantics (DESIGN.md §2.2). Shares no code with fancy-regex.
use crate::ast::{Mode, Node, A};
use std::collections::{BTreeMap, BTreeSet};

#[derive(Clone, Debug)]
pub enum R {
    Empty,
    Lit(String),
    Any(bool),
    Class(String),
    Assert(A),
    Concat(Vec<R>),
    Alt(Vec<R>),
    Group(usize, Box<R>),
    Repeat(Box<R>, u32, Option<u32>, Mode),
    Atomic(Box<R>),
    Look(Box<R>, bool, bool),
    Backref(usize),
    KeepOut,
    ContG,
    GroupExists(usize),
    CondGroup(usize, Box<R>, Box<R>),
    CondExpr(Box<R>, Box<R>, Box<R>),
    /// observer tag: records the character length of every completed match of the inner node
    Tagged(usize, Box<R>),
}

/// Node -> R with groups numbered in opening-parenthesis order. None if the tree uses a
/// construct the reference does not model (flag groups, raw text, unknown classes).
pub fn compile(n: &Node) -> Option<(R, usize)> {
    let mut g = 0;
    let r = comp(n, &mut g)?;
    Some((lookbehind_split(r), g))
}
fn comp(n: &Node, g: &mut usize) -> Option<R> {
    Some(match n {
        Node::Empty => R::Empty,
        Node::Lit(s) => R::Lit(s.clone()),
        Node::Any(b) => R::Any(*b),
        Node::Class(c) => {
            if !class_supported(c) {
                return None;
            }
            R::Class(c.clone())
        }
        Node::Assert(a) => R::Assert(*a),
        Node::Concat(v) => R::Concat(v.iter().map(|c| comp(c, g)).collect::<Option<Vec<_>>>()?),
        Node::Alt(v) => R::Alt(v.iter().map(|c| comp(c, g)).collect::<Option<Vec<_>>>()?),
        Node::Group(_, c) => {
            *g += 1;
            let i = *g;
            R::Group(i, Box::new(comp(c, g)?))
        }
        Node::NonCap(c) => comp(c, g)?,
        Node::Repeat(c, lo, hi, Mode::Poss) => R::Atomic(Box::new(R::Repeat(Box::new(comp(c, g)?), *lo, *hi, Mode::Greedy))),
        Node::Repeat(c, lo, hi, m) => R::Repeat(Box::new(comp(c, g)?), *lo, *hi, *m),
        Node::Atomic(c) => R::Atomic(Box::new(comp(c, g)?)),
        Node::Look(c, b, ng) => R::Look(Box::new(comp(c, g)?), *b, *ng),
        Node::Backref(i) => R::Backref(*i),
        Node::KeepOut => R::KeepOut,
        Node::ContG => R::ContG,
        Node::GroupExists(i) => R::GroupExists(*i),
        Node::CondGroup(i, y, no) => {
            let y = comp(y, g)?;
            let no = comp(no, g)?;
            R::CondGroup(*i, Box::new(y), Box::new(no))
        }
        Node::CondExpr(c, y, no) => {
            let c = comp(c, g)?;
            let y = comp(y, g)?;
            let no = comp(no, g)?;
            R::CondExpr(Box::new(c), Box::new(y), Box::new(no))
        }
        Node::Flags(..) | Node::Raw(_) => return None,
    })
}

/// Number of characters every match of `r` has, if that is one fixed number (my own rules:
/// a backreference has no fixed length; a conditional needs cond+yes == no).
pub fn fixed_len(r: &R) -> Option<usize> {
    match r {
        R::Empty | R::Assert(_) | R::Look(..) | R::KeepOut | R::ContG | R::GroupExists(_) => Some(0),
        R::Lit(l) => Some(l.chars().count()),
        R::Any(_) | R::Class(_) => Some(1),
        R::Concat(v) => v.iter().map(fixed_len).sum(),
        R::Alt(v) => {
            let first = fixed_len(&v[0])?;
            for c in &v[1..] {
                if fixed_len(c)? != first {
                    return None;
                }
            }
            Some(first)
        }
        R::Group(_, c) | R::Atomic(c) | R::Tagged(_, c) => fixed_len(c),
        R::Repeat(c, lo, hi, _) => {
            if Some(*lo) == *hi {
                Some(fixed_len(c)? * *lo as usize)
            } else {
                None
            }
        }
        R::Backref(_) => None,
        R::CondGroup(_, y, n) => {
            let a = fixed_len(y)?;
            if fixed_len(n)? == a {
                Some(a)
            } else {
                None
            }
        }
        R::CondExpr(c, y, n) => {
            let a = fixed_len(c)? + fixed_len(y)?;
            if fixed_len(n)? == a {
                Some(a)
            } else {
                None
            }
        }
    }
}

/// Rule 4: a positive look-behind whose top-level alternatives have different fixed lengths is
/// the alternation of per-alternative look-behinds (compile.rs documents this rewrite); a
/// negative one is the conjunction, which the plain semantics already gives.
fn lookbehind_split(r: R) -> R {
    let bx = |r: Box<R>| Box::new(lookbehind_split(*r));
    match r {
        R::Look(c, true, false) => {
            let c = lookbehind_split(*c);
            match c {
                R::Alt(v) if fixed_len(&R::Alt(v.clone())).is_none() => {
                    R::Alt(v.into_iter().map(|a| R::Look(Box::new(a), true, false)).collect())
                }
                other => R::Look(Box::new(other), true, false),
            }
        }
        R::Look(c, b, n) => R::Look(bx(c), b, n),
        R::Concat(v) => R::Concat(v.into_iter().map(lookbehind_split).collect()),
        R::Alt(v) => R::Alt(v.into_iter().map(lookbehind_split).collect()),
        R::Group(i, c) => R::Group(i, bx(c)),
        R::Repeat(c, lo, hi, m) => R::Repeat(bx(c), lo, hi, m),
        R::Atomic(c) => R::Atomic(bx(c)),
        R::CondGroup(i, y, n) => R::CondGroup(i, bx(y), bx(n)),
        R::CondExpr(c, y, n) => R::CondExpr(bx(c), bx(y), bx(n)),
        R::Tagged(i, c) => R::Tagged(i, bx(c)),
        other => other,
    }
}

#[derive(Clone, Debug, PartialEq, Eq)]
pub struct St {
    pub caps: Vec<Option<(usize, usize)>>,
    pub keep: Option<usize>,
}

pub type Obs = BTreeMap<usize, BTreeSet<usize>>;

pub struct M<'t> {
    pub text: &'t str,
    pub from: usize,
    pub skipped: bool,
    pub steps: u64,
    pub budget: u64,
    pub aborted: bool,
    /// observer for `Tagged` nodes; when set, committing constructs are explored exhaustively
    pub obs: Option<Obs>,
    /// bug-compatible mode for finding F1: an optional iteration of an unbounded repeat that
    /// consumed nothing FAILS (the crate's RepeatEpsilon guard) instead of ending the loop
    pub f1_compat: bool,
}

type K<'a, 't> = &'a mut dyn FnMut(&mut M<'t>, usize, &mut St) -> bool;

pub fn is_word(c: char) -> bool {
    c.is_alphanumeric() || c == '_'
}

/// strict recogniser for the class forms the evaluator below understands
pub fn class_supported(src: &str) -> bool {
    if matches!(src, "\\d" | "\\D" | "\\w" | "\\W" | "\\s" | "\\S") {
        return true;
    }
    let b: Vec<char> = src.chars().collect();
    if b.len() < 3 || b[0] != '[' || b[b.len() - 1] != ']' {
        return false;
    }
    let mut i = 1;
    if b[i] == '^' {
        i += 1;
    }
    if i >= b.len() - 1 {
        return false;
    }
    let mut prev_dash = false;
    while i < b.len() - 1 {
        match b[i] {
            '[' | ']' | '&' | '~' => return false,
            '\\' => {
                i += 1;
                if i >= b.len() - 1 || !matches!(b[i], 'd' | 'w' | 's' | 'n' | '\\' | '-' | ']' | '[' | '^') {
                    return false;
                }
                prev_dash = false;
            }
            '-' => {
                if prev_dash {
                    return false;
                }
                prev_dash = true;
            }
            _ => prev_dash = false,
        }
        i += 1;
    }
    true
}

pub fn class_matches(src: &str, c: char) -> bool {
    match src {
        "\\d" => c.is_ascii_digit(),
        "\\D" => !c.is_ascii_digit(),
        "\\w" => is_word(c),
        "\\W" => !is_word(c),
        "\\s" => c.is_whitespace(),
        "\\S" => !c.is_whitespace(),
        _ => {
            let b: Vec<char> = src.chars().collect();
            let mut i = 1;
            let mut neg = false;
            if b[i] == '^' {
                neg = true;
                i += 1;
            }
            let mut hit = false;
            while i < b.len() - 1 {
                let mut lo = b[i];
                if lo == '\\' {
                    i += 1;
                    let e = b[i];
                    i += 1;
                    match e {
                        'd' => {
                            hit |= c.is_ascii_digit();
                            continue;
                        }
                        'w' => {
                            hit |= is_word(c);
                            continue;
                        }
                        's' => {
                            hit |= c.is_whitespace();
                            continue;
                        }
                        'n' => lo = '\n',
                        other => lo = other,
                    }
                } else {
                    i += 1;
                }
                if i + 1 < b.len() - 1 && b[i] == '-' {
                    let hi = b[i + 1];
                    i += 2;
                    hit |= lo <= c && c <= hi;
                } else {
                    hit |= c == lo;
                }
            }
            hit != neg
        }
    }
}

impl<'t> M<'t> {
    fn prev_char(&self, pos: usize) -> Option<char> {
        self.text[..pos].chars().next_back()
    }
    fn next_char(&self, pos: usize) -> Option<char> {
        self.text[pos..].chars().next()
    }
    fn assert(&self, a: &A, pos: usize) -> bool {
        let len = self.text.len();
        let wp = self.prev_char(pos).map_or(false, is_word);
        let wn = self.next_char(pos).map_or(false, is_word);
        match a {
            A::StartText => pos == 0,
            A::EndText => pos == len,
            A::StartLine => pos == 0 || self.text.as_bytes()[pos - 1] == b'\n',
            A::EndLine => pos == len || self.text.as_bytes()[pos] == b'\n',
            A::WordB => wp != wn,
            A::NotWordB => wp == wn,
            A::WordStart => !wp && wn,
            A::WordEnd => wp && !wn,
            A::EndBeforeNl => self.text[pos..].bytes().all(|b| b == b'\n'),
        }
    }
    fn exploring(&self) -> bool {
        self.obs.is_some()
    }
    pub fn m(&mut self, r: &R, pos: usize, st: &mut St, k: K<'_, 't>) -> bool {
        self.steps += 1;
        if self.steps > self.budget {
            self.aborted = true;
        }
        if self.aborted {
            return false;
        }
        match r {
            R::Tagged(id, c) => {
                let id = *id;
                self.m(c, pos, st, &mut |s, p, st| {
                    if let Some(o) = s.obs.as_mut() {
                        let (a, b) = if p >= pos { (pos, p) } else { (p, pos) };
                        let n = s.text[a..b].chars().count();
                        o.entry(id).or_default().insert(n);
                    }
                    k(s, p, st)
                })
            }
            R::Empty => k(self, pos, st),
            R::Lit(l) => {
                if self.text[pos..].starts_with(l.as_str()) {
                    k(self, pos + l.len(), st)
                } else {
                    false
                }
            }
            R::Any(nl) => match self.next_char(pos) {
                Some(c) if *nl || c != '\n' => k(self, pos + c.len_utf8(), st),
                _ => false,
            },
            R::Class(src) => match self.next_char(pos) {
                Some(c) if class_matches(src, c) => k(self, pos + c.len_utf8(), st),
                _ => false,
            },
            R::Assert(a) => {
                if self.assert(a, pos) {
                    k(self, pos, st)
                } else {
                    false
                }
            }
            R::Concat(v) => self.concat(v, 0, pos, st, k),
            R::Alt(v) => {
                for c in v {
                    if self.m(c, pos, st, k) {
                        return true;
                    }
                    if self.aborted {
                        return false;
                    }
                }
                false
            }
            R::Group(i, c) => {
                let i = *i;
                self.m(c, pos, st, &mut |s, p, st| {
                    let old = st.caps[i];
                    st.caps[i] = Some((pos, p));
                    if k(s, p, st) {
                        true
                    } else {
                        st.caps[i] = old;
                        false
                    }
                })
            }
            R::Repeat(c, lo, hi, mode) => self.rep(c, *lo, *hi, *mode, 0, pos, st, k),
            R::Atomic(c) => {
                if self.exploring() {
                    return self.m(c, pos, st, k);
                }
                let saved = st.clone();
                let mut endp = 0;
                if self.m(c, pos, st, &mut |_, p, _| {
                    endp = p;
                    true
                }) {
                    if k(self, endp, st) {
                        true
                    } else {
                        *st = saved;
                        false
                    }
                } else {
                    false
                }
            }
            R::Look(c, false, false) => {
                if self.exploring() {
                    return self.m(c, pos, st, &mut |s, _p, st| k(s, pos, st));
                }
                let saved = st.clone();
                if self.m(c, pos, st, &mut |_, _, _| true) {
                    if k(self, pos, st) {
                        true
                    } else {
                        *st = saved;
                        false
                    }
                } else {
                    false
                }
            }
            R::Look(c, false, true) => {
                let saved = st.clone();
                if self.exploring() {
                    let mut any = false;
                    self.m(c, pos, st, &mut |_, _, _| {
                        any = true;
                        false
                    });
                    *st = saved;
                    if any || self.aborted {
                        return false;
                    }
                    return k(self, pos, st);
                }
                if self.m(c, pos, st, &mut |_, _, _| true) {
                    *st = saved;
                    false
                } else {
                    if self.aborted {
                        return false;
                    }
                    k(self, pos, st)
                }
            }
            R::Look(c, true, neg) => {
                let starts: Vec<usize> = (0..=pos).rev().filter(|&s| self.text.is_char_boundary(s)).collect();
                let saved = st.clone();
                if self.exploring() {
                    let mut any = false;
                    for &s in &starts {
                        if !*neg {
                            if self.m(c, s, st, &mut |m, p, st| p == pos && k(m, pos, st)) {
                                return true;
                            }
                        } else {
                            self.m(c, s, st, &mut |_, p, _| {
                                any |= p == pos;
                                false
                            });
                        }
                        if self.aborted {
                            return false;
                        }
                    }
                    *st = saved;
                    if !*neg || any {
                        return false;
                    }
                    return k(self, pos, st);
                }
                if !*neg {
                    for &s in &starts {
                        if self.m(c, s, st, &mut |_, p, _| p == pos) {
                            if k(self, pos, st) {
                                return true;
                            } else {
                                *st = saved;
                                return false;
                            }
                        }
                        if self.aborted {
                            return false;
                        }
                    }
                    false
                } else {
                    for &s in &starts {
                        if self.m(c, s, st, &mut |_, p, _| p == pos) {
                            *st = saved;
                            return false;
                        }
                        if self.aborted {
                            return false;
                        }
                    }
                    k(self, pos, st)
                }
            }
            R::Backref(i) => match st.caps.get(*i).copied().flatten() {
                Some((a, b)) => {
                    let t = &self.text[a..b];
                    if self.text[pos..].starts_with(t) {
                        k(self, pos + t.len(), st)
                    } else {
                        false
                    }
                }
                None => false,
            },
            R::KeepOut => {
                let old = st.keep;
                st.keep = Some(pos);
                if k(self, pos, st) {
                    true
                } else {
                    st.keep = old;
                    false
                }
            }
            R::ContG => {
                if pos == self.from && !self.skipped {
                    k(self, pos, st)
                } else {
                    false
                }
            }
            R::GroupExists(i) => {
                if st.caps.get(*i).copied().flatten().is_some() {
                    k(self, pos, st)
                } else {
                    false
                }
            }
            R::CondGroup(i, y, no) => {
                if st.caps.get(*i).copied().flatten().is_some() {
                    self.m(y, pos, st, k)
                } else {
                    self.m(no, pos, st, k)
                }
            }
            R::CondExpr(c, y, no) => {
                if self.exploring() {
                    let mut any = false;
                    if self.m(c, pos, st, &mut |s, p, st| {
                        any = true;
                        s.m(y, p, st, k)
                    }) {
                        return true;
                    }
                    if self.aborted {
                        return false;
                    }
                    if any {
                        return false;
                    }
                    return self.m(no, pos, st, k);
                }
                let saved = st.clone();
                let mut endp = 0;
                if self.m(c, pos, st, &mut |_, p, _| {
                    endp = p;
                    true
                }) {
                    if self.m(y, endp, st, k) {
                        true
                    } else {
                        *st = saved;
                        false
                    }
                } else {
                    if self.aborted {
                        return false;
                    }
                    self.m(no, pos, st, k)
                }
            }
        }
    }
    fn concat(&mut self, v: &[R], i: usize, pos: usize, st: &mut St, k: K<'_, 't>) -> bool {
        if i == v.len() {
            return k(self, pos, st);
        }
        self.m(&v[i], pos, st, &mut |s, p, st| s.concat(v, i + 1, p, st, k))
    }
    #[allow(clippy::too_many_arguments)]
    fn rep(&mut self, c: &R, lo: u32, hi: Option<u32>, mode: Mode, count: u32, pos: usize, st: &mut St, k: K<'_, 't>) -> bool {
        if count < lo {
            return self.m(c, pos, st, &mut |s, p, st| s.rep(c, lo, hi, mode, count + 1, p, st, k));
        }
        let more = hi.map_or(true, |h| count < h);
        let unbounded = hi.is_none();
        match mode {
            Mode::Greedy | Mode::Poss => {
                if more {
                    if self.m(c, pos, st, &mut |s, p, st| {
                        if unbounded && p == pos {
                            // rule 7 (Perl): an iteration that consumed nothing ends the loop;
                            // the crate (finding F1) makes that iteration fail instead
                            if s.f1_compat {
                                false
                            } else {
                                k(s, p, st)
                            }
                        } else {
                            s.rep(c, lo, hi, mode, count + 1, p, st, k)
                        }
                    }) {
                        return true;
                    }
                    if self.aborted {
                        return false;
                    }
                }
                k(self, pos, st)
            }
            Mode::Lazy => {
                if k(self, pos, st) {
                    return true;
                }
                if self.aborted {
                    return false;
                }
                if more {
                    self.m(c, pos, st, &mut |s, p, st| {
                        if unbounded && p == pos {
                            false
                        } else {
                            s.rep(c, lo, hi, mode, count + 1, p, st, k)
                        }
                    })
                } else {
                    false
                }
            }
        }
    }
}

pub type Caps = Vec<Option<(usize, usize)>>;

#[derive(Clone, Debug, PartialEq, Eq)]
pub enum Out {
    NoMatch,
    Match(Caps),
    Inconclusive,
}

pub const BUDGET: u64 = 200_000;

std::thread_local! {
    /// per-thread switch for the bug-compatible F1 mode of `search` / `iterate`
    pub static F1_COMPAT: std::cell::Cell<bool> = const { std::cell::Cell::new(false) };
}

/// Leftmost search from `from`; returns the capture vector with group 0 = overall span.
pub fn search(r: &R, ngroups: usize, text: &str, from: usize, skipped: bool, budget: u64) -> (Out, u64) {
    let mut m = M { text, from, skipped, steps: 0, budget, aborted: false, obs: None, f1_compat: F1_COMPAT.with(|c| c.get()) };
    let mut s = from;
    loop {
        let mut st = St { caps: vec![None; ngroups + 1], keep: None };
        let mut endp = 0;
        if m.m(r, s, &mut st, &mut |_, p, _| {
            endp = p;
            true
        }) {
            // rule 5: `\K` moves the reported start; it is capped to the end, and a match never
            // starts before the search offset (`\K` inside a look-behind could point there)
            let start = st.keep.unwrap_or(s).min(endp).max(from);
            st.caps[0] = Some((start, endp));
            return (Out::Match(st.caps), m.steps);
        }
        if m.aborted {
            return (Out::Inconclusive, m.steps);
        }
        if s >= text.len() {
            return (Out::NoMatch, m.steps);
        }
        s += text[s..].chars().next().unwrap().len_utf8();
    }
}

/// Explore every path from every start position, recording per-tag observed lengths.
pub fn observe(r: &R, ngroups: usize, text: &str, budget: u64, obs: &mut Obs) -> bool {
    let mut m = M { text, from: 0, skipped: false, steps: 0, budget, aborted: false, obs: Some(std::mem::take(obs)), f1_compat: false };
    let mut s = 0;
    loop {
        let mut st = St { caps: vec![None; ngroups + 1], keep: None };
        m.m(r, s, &mut st, &mut |_, _, _| false);
        if m.aborted || s >= text.len() {
            break;
        }
        s += text[s..].chars().next().unwrap().len_utf8();
    }
    *obs = m.obs.take().unwrap();
    !m.aborted
}

/// The iteration model of `find_iter` (C08) driven by the reference matcher.
pub fn iterate(r: &R, ngroups: usize, t: &str, budget: u64, max_items: usize) -> Option<Vec<Caps>> {
    let mut out = vec![];
    let mut last_end = 0usize;
    let mut last_match: Option<usize> = None;
    loop {
        if last_end > t.len() || out.len() > max_items {
            break;
        }
        let skipped = matches!(last_match, Some(lm) if last_end > lm);
        match search(r, ngroups, t, last_end, skipped, budget).0 {
            Out::Inconclusive => return None,
            Out::NoMatch => break,
            Out::Match(c) => {
                let (st, en) = c[0].unwrap();
                if st == en {
                    last_end = if en < t.len() { en + t[en..].chars().next().unwrap().len_utf8() } else { en + 1 };
                    if Some(en) == last_match {
                        continue;
                    }
                } else {
                    last_end = en;
                }
                last_match = Some(en);
                out.push(c);
            }
        }
    }
    Some(out)
}

#[cfg(test)]
mod tests {
    use super::*;
    use crate::ast::Node;
    fn run(p: &Node, t: &str) -> Out {
        let (r, g) = compile(p).unwrap();
        search(&r, g, t, 0, false, BUDGET).0
    }
    #[test]
    fn basics() {
        let p = Node::Concat(vec![Node::group(Node::Alt(vec![Node::lit("a"), Node::lit("ab")])), Node::lit("c")]);
        assert_eq!(run(&p, "xabc"), Out::Match(vec![Some((1, 4)), Some((1, 3))]));
        let p = Node::Concat(vec![Node::Atomic(Box::new(Node::Alt(vec![Node::lit("a"), Node::lit("ab")]))), Node::lit("c")]);
        assert_eq!(run(&p, "abc"), Out::NoMatch);
        let p = Node::Concat(vec![Node::lit("b"), Node::Look(Box::new(Node::Alt(vec![Node::lit("ab"), Node::lit("b")])), true, false)]);
        assert_eq!(run(&p, "ab"), Out::Match(vec![Some((1, 2))]));
        assert!(class_supported("[^a]") && class_supported("[a-c\\d]") && !class_supported("[a&&b]") && !class_supported("[[a]]"));
    }
}
