//! C08 — find_iter yields exactly the successive leftmost non-overlapping matches.
use crate::ast::Node;
use crate::common::*;
use crate::diff;
use crate::gen;
use crate::refm;
use crate::spaces;
use serde_json::json;

pub fn run(ctx: &Ctx) -> Outcome {
    let sp = spaces::c01_space(ctx.tier, ctx.seed ^ 8, false, 3, 4, 2, 2, 10_000, 50_000);
    let mut patterns = sp.patterns;
    let small: Vec<Node> = {
        let mut g = gen::Gen::new(false);
        g.upto(ctx.tier.pick(3, 3))
    };
    let gk = gen::g_contexts(&small);
    let n_gk = gk.len();
    patterns.extend(gk);
    let texts = spaces::texts_c01(ctx.tier.pick(3, 4));
    let fk_listed = ctx.known.listed("C08", "FK");
    let fj_listed = ctx.known.listed("C08", "FJ");
    let acc = par_run(&patterns, true, Some(2_000_000), |_, p, acc| {
        if let Some(why) = diff::default_exclude(p) {
            acc.count(&format!("excluded:{}", why));
            return;
        }
        let s = p.print();
        let re = match compile(&s) {
            Got::Val(r) => r,
            Got::Err(_) => {
                acc.count("compile-err");
                return;
            }
            o => {
                acc.violate(Violation::new("C08", "compile-panic", &s, "", 0, "Regex::new", "Ok or Err".into(), o.show()));
                return;
            }
        };
        let Some((r, ng)) = refm::compile(p) else { return };
        refm::F1_COMPAT.with(|c| c.set(p.has_f1()));
        let fk = p.has_keepout_in_lookbehind() && fk_listed;
        let limited: Vec<_> = (0..4usize).filter_map(|l| compile_with(&s, |b| { b.backtrack_limit(l); }).val().cloned()).collect();
        let _ = hook_take();
        let mut nontrivial = false;
        for t in &texts {
            acc.evals += 1;
            let bound = t.chars().count() + 2;
            let got = find_iter_seq(&re, t, bound + 3);
            let h = acc.take_hooks();
            let attributed = |acc: &mut Acc, what: String| -> bool {
                if fk {
                    acc.known_hit("FK", || format!("{} on {:?}: {}", s, t, what));
                    true
                } else if fj_listed && h.aux_mismatch > 0 && p.has_cond() {
                    acc.known_hit("FJ", || format!("{} on {:?}: {}", s, t, what));
                    true
                } else {
                    false
                }
            };
            let seq = match &got {
                Got::Val(v) => v,
                Got::StepCap => {
                    acc.inconclusive += 1;
                    continue;
                }
                o => {
                    acc.violate(Violation::new("C08", "panic", &s, t, 0, "find_iter", "a sequence".into(), o.show()));
                    continue;
                }
            };
            // model-free invariants
            let mut prev: Option<(usize, usize)> = None;
            let mut problem = None;
            if seq.len() > bound {
                problem = Some(format!("more than chars+2 = {} items", bound));
            }
            let mut seen_err = false;
            for item in seq {
                if seen_err {
                    problem = Some("an item after an Err item".into());
                }
                match item {
                    Err(_) => seen_err = true,
                    Ok((a, b)) => {
                        if let Some((pa, pb)) = prev {
                            if *a < pb || (*a, *b) <= (pa, pb) {
                                problem = Some(format!("{}..{} after {}..{}: overlap or not strictly increasing", a, b, pa, pb));
                            }
                        }
                        prev = Some((*a, *b));
                    }
                }
            }
            if let Some(what) = problem {
                if !attributed(acc, what.clone()) {
                    acc.violate(Violation::new("C08", "order-invariants", &s, t, 0, "find_iter", "strictly increasing, non-overlapping, bounded, nothing after Err".into(), format!("{}: {:?}", what, seq)));
                }
                continue;
            }
            // the iteration model driven by the reference matcher
            match refm::iterate(&r, ng, t, refm::BUDGET, bound + 3) {
                None => acc.inconclusive += 1,
                Some(want) => {
                    let want: Vec<Result<(usize, usize), String>> = want.iter().map(|c| Ok(c[0].unwrap())).collect();
                    if &want != seq {
                        let what = format!("find_iter {:?} vs model {:?}", seq, want);
                        if !attributed(acc, what) {
                            acc.violate(Violation::new("C08", "iteration-model", &s, t, 0, "find_iter", format!("{:?}", want), format!("{:?}", seq)));
                        }
                    }
                    if want.len() >= 2 || want.iter().any(|m| matches!(m, Ok((a, b)) if a == b)) {
                        nontrivial = true;
                    }
                }
            }
            // error histories: tiny backtrack limits
            for lre in &limited {
                match find_iter_seq(lre, t, bound + 3) {
                    Got::Val(v) => {
                        if let Some(ix) = v.iter().position(|i| i.is_err()) {
                            acc.count("error-histories");
                            if ix + 1 != v.len() {
                                acc.violate(Violation::new("C08", "after-err", &s, t, 0, "find_iter (tiny backtrack limit)", "nothing after the Err item".into(), format!("{:?}", v)));
                            }
                        }
                    }
                    Got::StepCap => {}
                    o => acc.violate(Violation::new("C08", "panic", &s, t, 0, "find_iter (tiny backtrack limit)", "a sequence".into(), o.show())),
                }
                let _ = acc.take_hooks();
            }
        }
        if nontrivial {
            acc.distinct += 1;
            acc.sample(2, || json!({"pattern": s}));
        }
    });
    let mut acc = acc;
    diff::run_witnesses(ctx, "C08", "FK", &mut acc);
    diff::run_witnesses(ctx, "C08", "F1", &mut acc);
    let mut out = Outcome::new(acc);
    out.distinct_nontrivial = out.acc.distinct;
    out.rule = format!("{} + {} \\G / \\K variants (\\GX, (?:\\G|a)X, X\\Kb, (?:X\\K)?b) of the trees of <= 3 nodes; x all {} texts over {{a,b,c,é,\\n,-}} up to length {}. The whole yielded sequence is compared with the iteration model (search from the previous end, step one character after an empty match, drop an empty match adjacent to the previous match, \\G knows about a skipped empty match) driven by the reference matcher; model-free invariants (strictly increasing, no overlap, <= chars+2 items, nothing after Err) on every sequence; Err histories induced with backtrack limits 0-3. Non-trivial: distinct patterns with a text yielding >= 2 items or an empty match.", sp.describe, n_gk, texts.len(), ctx.tier.pick(3, 4));
    out.assumptions = vec!["whether None stays None after exhaustion is not part of the property and not judged".into()];
    let eh = out.acc.get("error-histories");
    out.extra = json!({"error_histories": eh});
    out.require(eh > 0, "no Err item was induced");
    out
}
