//! Harness-side pattern AST and printer. Patterns are produced as trees and printed, so every
//! monitor knows the structure of what it feeds the crate. Shares no code with fancy-regex.

#[derive(Clone, Copy, Debug, PartialEq, Eq, Hash, PartialOrd, Ord)]
pub enum A {
    StartText,
    EndText,
    StartLine,
    EndLine,
    WordB,
    NotWordB,
    EndBeforeNl,
    WordStart,
    WordEnd,
}

#[derive(Clone, Copy, Debug, PartialEq, Eq, Hash, PartialOrd, Ord)]
pub enum Mode {
    Greedy,
    Lazy,
    Poss,
}

#[derive(Clone, Debug, PartialEq, Eq, Hash, PartialOrd, Ord)]
pub enum Node {
    Empty,
    Lit(String),
    /// `.`; true = also matches newline (printed `(?s:.)`)
    Any(bool),
    /// class source text kept verbatim (`[ab]`, `\d`, ...); semantics via `refm::class_matches`
    Class(String),
    Assert(A),
    Concat(Vec<Node>),
    Alt(Vec<Node>),
    /// capturing group, optionally named
    Group(Option<String>, Box<Node>),
    NonCap(Box<Node>),
    Repeat(Box<Node>, u32, Option<u32>, Mode),
    Atomic(Box<Node>),
    /// (body, behind, negative)
    Look(Box<Node>, bool, bool),
    Backref(usize),
    KeepOut,
    ContG,
    /// `(?(N)yes|no)`
    CondGroup(usize, Box<Node>, Box<Node>),
    /// `(?(cond)yes|no)`
    CondExpr(Box<Node>, Box<Node>, Box<Node>),
    /// `(?(N))`
    GroupExists(usize),
    /// flag group: (on, off, Some(body)) prints `(?on-off:body)`; None prints the inline
    /// directive `(?on-off)` which applies to the rest of the enclosing group
    Flags(String, String, Option<Box<Node>>),
    /// verbatim pattern text (atom level)
    Raw(String),
}
use Node::*;

#[derive(Clone, Copy, Debug, PartialEq, Eq)]
pub enum GroupStyle {
    Plain,
    Angle,
    PName,
}
#[derive(Clone, Copy, Debug, PartialEq, Eq)]
pub enum RefStyle {
    Num,
    KAngle,
    KQuote,
    PEq,
    Relative,
}
#[derive(Clone, Copy, Debug, PartialEq, Eq)]
pub enum LitStyle {
    Plain,
    Hex2,
    HexBrace,
    U4,
    U8,
}

/// Spelling options of the printer (C19 respellings are differences in `Style`).
#[derive(Clone, Debug, PartialEq, Eq)]
pub struct Style {
    pub group: GroupStyle,
    pub backref: RefStyle,
    pub lit: LitStyle,
    pub possessive_as_atomic: bool,
    pub quant_braces: bool,
    pub text_anchors_as_escapes: bool,
    pub scoped_flags_as_inline: bool,
    pub newline_literal: bool,
    pub swap_greed_groups: bool,
    pub class_h: bool,
    pub lit_escapes: bool,
}
impl Default for Style {
    fn default() -> Self {
        Style {
            group: GroupStyle::Plain,
            backref: RefStyle::Num,
            lit: LitStyle::Plain,
            possessive_as_atomic: false,
            quant_braces: false,
            text_anchors_as_escapes: false,
            scoped_flags_as_inline: false,
            newline_literal: false,
            swap_greed_groups: false,
            class_h: false,
            lit_escapes: false,
        }
    }
}

pub fn group_name(i: usize) -> String {
    format!("g{}", i)
}

struct Printer<'s> {
    style: &'s Style,
    toks: Vec<String>,
    opened: usize,
}

const META: &str = "\\.+*?()|[]{}^$#-";

impl<'s> Printer<'s> {
    fn t(&mut self, s: &str) {
        self.toks.push(s.to_string());
    }
    fn lit_char(&mut self, c: char) {
        let cp = c as u32;
        match self.style.lit {
            LitStyle::Hex2 if cp < 0x100 && c.is_ascii() => return self.t(&format!("\\x{:02x}", cp)),
            LitStyle::HexBrace => return self.t(&format!("\\x{{{:x}}}", cp)),
            LitStyle::U4 if cp < 0x10000 => return self.t(&format!("\\u{:04X}", cp)),
            LitStyle::U8 => return self.t(&format!("\\U{:08x}", cp)),
            _ => {}
        }
        if self.style.lit_escapes {
            let e = match c {
                '\x07' => "\\a",
                '\x0c' => "\\f",
                '\t' => "\\t",
                '\r' => "\\r",
                '\x0b' => "\\v",
                '\x1b' => "\\e",
                _ => "",
            };
            if !e.is_empty() {
                return self.t(e);
            }
        }
        if c == '\n' {
            if self.style.newline_literal {
                self.t("\n")
            } else {
                self.t("\\n")
            }
        } else if c == ' ' {
            self.t("\\ ")
        } else if META.contains(c) {
            self.t(&format!("\\{}", c))
        } else {
            self.t(&c.to_string())
        }
    }
    fn backref(&mut self, n: usize) {
        let named = self.style.group != GroupStyle::Plain;
        match self.style.backref {
            RefStyle::Num if !named => self.t(&format!("\\{}", n)),
            RefStyle::Relative if n >= 1 && n <= self.opened => {
                let r = self.opened - n + 1;
                self.t(&format!("\\k<-{}>", r))
            }
            RefStyle::KQuote if named => self.t(&format!("\\k'{}'", group_name(n))),
            RefStyle::PEq if named => self.t(&format!("(?P={})", group_name(n))),
            _ if named => self.t(&format!("\\k<{}>", group_name(n))),
            RefStyle::KAngle => self.t(&format!("\\k<{}>", n)),
            _ => self.t(&format!("\\{}", n)),
        }
    }
    fn cond_ref(&mut self, n: usize) {
        let named = self.style.group != GroupStyle::Plain;
        if named {
            if self.style.backref == RefStyle::KQuote {
                self.t(&format!("(?('{}')", group_name(n)))
            } else {
                self.t(&format!("(?(<{}>)", group_name(n)))
            }
        } else {
            self.t(&format!("(?({})", n))
        }
    }
    // prec: 0 = alternation allowed, 1 = concat level, 2 = atom needed
    fn p(&mut self, n: &Node, prec: u8) {
        match n {
            Empty => {
                if prec >= 2 {
                    self.t("(?:");
                    self.t(")");
                }
            }
            Lit(l) => {
                let multi = l.chars().count() != 1;
                if prec >= 2 && multi {
                    self.t("(?:");
                }
                for c in l.chars() {
                    self.lit_char(c);
                }
                if prec >= 2 && multi {
                    self.t(")");
                }
            }
            Any(false) => self.t("."),
            Any(true) => {
                if self.style.scoped_flags_as_inline {
                    self.t("(?:");
                    self.t("(?s)");
                    self.t(".");
                    self.t(")");
                } else {
                    self.t("(?s:");
                    self.t(".");
                    self.t(")");
                }
            }
            Class(c) => {
                if self.style.class_h && c == "[0-9A-Fa-f]" {
                    self.t("\\h")
                } else if self.style.class_h && c == "[^0-9A-Fa-f]" {
                    self.t("\\H")
                } else {
                    self.t(c)
                }
            }
            Raw(r) => self.t(r),
            Assert(a) => {
                let esc = self.style.text_anchors_as_escapes;
                let inl = self.style.scoped_flags_as_inline;
                match a {
                    A::StartText => self.t(if esc { "\\A" } else { "^" }),
                    A::EndText => self.t(if esc { "\\z" } else { "$" }),
                    A::StartLine | A::EndLine => {
                        let sym = if *a == A::StartLine { "^" } else { "$" };
                        if inl {
                            self.t("(?:");
                            self.t("(?m)");
                            self.t(sym);
                            self.t(")");
                        } else {
                            self.t("(?m:");
                            self.t(sym);
                            self.t(")");
                        }
                    }
                    A::WordB => self.t("\\b"),
                    A::NotWordB => self.t("\\B"),
                    A::EndBeforeNl => self.t("\\Z"),
                    A::WordStart => self.t("\\<"),
                    A::WordEnd => self.t("\\>"),
                }
            }
            Concat(v) => {
                if prec >= 2 {
                    self.t("(?:");
                }
                for c in v {
                    self.p(c, 1);
                }
                if prec >= 2 {
                    self.t(")");
                }
            }
            Alt(v) => {
                if prec >= 1 {
                    self.t("(?:");
                }
                for (i, c) in v.iter().enumerate() {
                    if i > 0 {
                        self.t("|");
                    }
                    self.p(c, 0);
                }
                if prec >= 1 {
                    self.t(")");
                }
            }
            Group(name, c) => {
                self.opened += 1;
                let me = self.opened;
                let nm = match (name, self.style.group) {
                    (Some(n), _) if n.is_empty() => Some(format!("n{}", me)),
                    (Some(n), _) => Some(n.clone()),
                    (None, GroupStyle::Plain) => None,
                    (None, _) => Some(group_name(me)),
                };
                match nm {
                    None => self.t("("),
                    Some(n) => {
                        if self.style.group == GroupStyle::PName {
                            self.t(&format!("(?P<{}>", n))
                        } else {
                            self.t(&format!("(?<{}>", n))
                        }
                    }
                }
                self.p(c, 0);
                self.t(")");
            }
            NonCap(c) => {
                self.t("(?:");
                self.p(c, 0);
                self.t(")");
            }
            Repeat(c, lo, hi, mode) => {
                let (lo, hi, mut mode) = (*lo, *hi, *mode);
                let as_atomic = mode == Mode::Poss && self.style.possessive_as_atomic;
                if as_atomic {
                    self.t("(?>");
                    mode = Mode::Greedy;
                } else if prec >= 2 {
                    self.t("(?:");
                }
                let swap = self.style.swap_greed_groups && mode != Mode::Poss;
                if swap {
                    self.t("(?U:");
                    mode = if mode == Mode::Greedy { Mode::Lazy } else { Mode::Greedy };
                }
                self.p(c, 2);
                let mut q = match (lo, hi) {
                    (0, Some(1)) if !self.style.quant_braces => "?".to_string(),
                    (0, None) if !self.style.quant_braces => "*".to_string(),
                    (1, None) if !self.style.quant_braces => "+".to_string(),
                    (lo, Some(hi)) if lo == hi && !self.style.quant_braces => format!("{{{}}}", lo),
                    (lo, Some(hi)) => format!("{{{},{}}}", lo, hi),
                    (lo, None) => format!("{{{},}}", lo),
                };
                match mode {
                    Mode::Greedy => {}
                    Mode::Lazy => q.push('?'),
                    Mode::Poss => q.push('+'),
                }
                self.t(&q);
                if swap {
                    self.t(")");
                }
                if as_atomic || prec >= 2 {
                    self.t(")");
                }
            }
            Atomic(c) => {
                self.t("(?>");
                self.p(c, 0);
                self.t(")");
            }
            Look(c, behind, neg) => {
                self.t(match (behind, neg) {
                    (false, false) => "(?=",
                    (false, true) => "(?!",
                    (true, false) => "(?<=",
                    (true, true) => "(?<!",
                });
                self.p(c, 0);
                self.t(")");
            }
            Backref(n) => self.backref(*n),
            KeepOut => self.t("\\K"),
            ContG => self.t("\\G"),
            GroupExists(n) => {
                self.cond_ref(*n);
                self.t(")");
            }
            CondGroup(n, y, no) => {
                self.cond_ref(*n);
                self.p(y, 1);
                // both branches empty: the `|` has to be written, `(?(1))` alone is the
                // group-exists test
                if **no != Empty || **y == Empty {
                    self.t("|");
                    self.p(no, 0);
                }
                self.t(")");
            }
            CondExpr(c, y, no) => {
                self.t("(?(");
                self.p(c, 0);
                self.t(")");
                self.p(y, 1);
                if **no != Empty || **y == Empty {
                    self.t("|");
                    self.p(no, 0);
                }
                self.t(")");
            }
            Flags(on, off, body) => {
                let mut f = String::from("(?");
                f.push_str(on);
                if !off.is_empty() {
                    f.push('-');
                    f.push_str(off);
                }
                match body {
                    Some(b) => {
                        if self.style.scoped_flags_as_inline {
                            f.push(')');
                            self.t("(?:");
                            self.t(&f);
                            self.p(b, 0);
                            self.t(")");
                        } else {
                            f.push(':');
                            self.t(&f);
                            self.p(b, 0);
                            self.t(")");
                        }
                    }
                    None => {
                        f.push(')');
                        self.t(&f);
                    }
                }
            }
        }
    }
}

impl Node {
    pub fn lit(s: &str) -> Node {
        Lit(s.to_string())
    }
    pub fn class(s: &str) -> Node {
        Class(s.to_string())
    }
    pub fn group(n: Node) -> Node {
        Group(None, Box::new(n))
    }
    pub fn print(&self) -> String {
        self.tokens(&Style::default()).concat()
    }
    pub fn print_with(&self, style: &Style) -> String {
        self.tokens(style).concat()
    }
    /// The pattern as a list of atomic tokens; whitespace or comments may be put between any two.
    pub fn tokens(&self, style: &Style) -> Vec<String> {
        let mut p = Printer { style, toks: vec![], opened: 0 };
        p.p(self, 0);
        p.toks
    }
    pub fn children(&self) -> Vec<&Node> {
        match self {
            Concat(v) | Alt(v) => v.iter().collect(),
            Group(_, c) | NonCap(c) | Atomic(c) | Repeat(c, ..) | Look(c, ..) => vec![c],
            CondGroup(_, y, n) => vec![y, n],
            CondExpr(c, y, n) => vec![c, y, n],
            Flags(_, _, Some(b)) => vec![b],
            _ => vec![],
        }
    }
    pub fn any(&self, f: &dyn Fn(&Node) -> bool) -> bool {
        f(self) || self.children().iter().any(|c| c.any(f))
    }
    pub fn size(&self) -> usize {
        1 + self.children().iter().map(|c| c.size()).sum::<usize>()
    }
    pub fn n_groups(&self) -> usize {
        (matches!(self, Group(..)) as usize) + self.children().iter().map(|c| c.n_groups()).sum::<usize>()
    }
    /// conservative: can this node match the empty string?
    pub fn nullable(&self) -> bool {
        match self {
            Empty | Assert(_) | Look(..) | KeepOut | ContG | Backref(_) | GroupExists(_) => true,
            Flags(_, _, None) => true,
            Raw(_) => true,
            Lit(l) => l.is_empty(),
            Any(_) | Class(_) => false,
            Concat(v) => v.iter().all(|c| c.nullable()),
            Alt(v) => v.iter().any(|c| c.nullable()),
            Group(_, c) | NonCap(c) | Atomic(c) | Flags(_, _, Some(c)) => c.nullable(),
            Repeat(c, lo, _, _) => *lo == 0 || c.nullable(),
            CondGroup(_, y, n) => y.nullable() || n.nullable(),
            CondExpr(c, y, n) => (c.nullable() && y.nullable()) || n.nullable(),
        }
    }
    /// finding F1 class: an unbounded repeat whose body can match the empty string
    pub fn has_f1(&self) -> bool {
        self.any(&|n| matches!(n, Repeat(c, _, None, _) if c.nullable()))
    }
    /// syntactic "hard" test: the node contains a construct only the VM can run
    pub fn syntactically_hard(&self) -> bool {
        self.any(&|n| matches!(n, Look(..) | Backref(_) | Atomic(_) | KeepOut | ContG | CondGroup(..) | CondExpr(..) | GroupExists(_) | Assert(A::WordB | A::NotWordB | A::WordStart | A::WordEnd | A::EndBeforeNl) | Repeat(_, _, _, Mode::Poss)))
    }
    /// every unbounded repeat with a nullable body has a syntactically hard body, i.e. all F1
    /// loops of the pattern are certainly interpreted by the VM (none can sit inside a delegate)
    pub fn f1_loops_all_hard(&self) -> bool {
        !self.any(&|n| matches!(n, Repeat(c, _, None, _) if c.nullable() && !c.syntactically_hard()))
    }
    /// Finding FY (regex-syntax lifts a common prefix out of an alternation): some alternation
    /// whose branches ALL start - after looking through non-capturing groups and nested
    /// concatenations - with the same element, and that element can end in more than one place
    /// (it holds a repeat with a range or an alternation). Literal-only prefixes are harmless.
    pub fn has_common_prefix_alt(&self) -> bool {
        fn first(n: &Node) -> Option<&Node> {
            match n {
                Concat(v) => v.first().and_then(first),
                NonCap(b) => first(b),
                Empty => None,
                other => Some(other),
            }
        }
        fn variable(n: &Node) -> bool {
            n.any(&|m| matches!(m, Repeat(_, lo, hi, _) if Some(*lo) != *hi) || matches!(m, Alt(_)))
        }
        self.any(&|n| match n {
            Alt(v) if v.len() >= 2 => match first(&v[0]) {
                Some(f) if variable(f) => v.iter().all(|b| matches!(b, Concat(_) | NonCap(_)) && first(b) == Some(f)),
                _ => false,
            },
            _ => false,
        })
    }
    pub fn has_cond(&self) -> bool {
        self.any(&|n| matches!(n, CondGroup(..) | CondExpr(..) | GroupExists(_)))
    }
    pub fn has_lookbehind(&self) -> bool {
        self.any(&|n| matches!(n, Look(_, true, _)))
    }
    /// finding FK class: `\K` below a look-behind
    pub fn has_keepout_in_lookbehind(&self) -> bool {
        self.any(&|n| matches!(n, Look(c, true, _) if c.any(&|m| matches!(m, KeepOut))))
    }
    /// a bare backreference used as the *expression* condition is parsed as the group-exists form
    pub fn has_bare_backref_cond(&self) -> bool {
        self.any(&|n| matches!(n, CondExpr(c, ..) if matches!(**c, Backref(_))))
    }
    /// every backreference / group condition names a group whose `)` precedes it
    pub fn refs_closed(&self) -> bool {
        fn walk(n: &Node, opened: &mut usize, closed: &mut Vec<usize>) -> bool {
            match n {
                Backref(i) | GroupExists(i) => closed.contains(i),
                Group(_, c) => {
                    *opened += 1;
                    let me = *opened;
                    let ok = walk(c, opened, closed);
                    closed.push(me);
                    ok
                }
                CondGroup(i, y, no) => closed.contains(i) && walk(y, opened, closed) && walk(no, opened, closed),
                other => {
                    for c in other.children() {
                        if !walk(c, opened, closed) {
                            return false;
                        }
                    }
                    true
                }
            }
        }
        walk(self, &mut 0, &mut vec![])
    }
    /// references only to groups that exist at all (so that the pattern can compile)
    pub fn refs_exist(&self) -> bool {
        let n = self.n_groups();
        !self.any(&|m| matches!(m, Backref(i) | GroupExists(i) | CondGroup(i, ..) if *i > n))
    }
    pub fn has_refs(&self) -> bool {
        self.any(&|m| matches!(m, Backref(_) | GroupExists(_) | CondGroup(..)))
    }
}

#[cfg(test)]
mod tests {
    use super::*;
    #[test]
    fn printing() {
        let n = Concat(vec![
            Node::group(Alt(vec![Node::lit("a"), Node::lit("ab")])),
            Repeat(Box::new(Backref(1)), 0, Some(1), Mode::Poss),
            Look(Box::new(Node::lit("é")), true, true),
        ]);
        assert_eq!(n.print(), "(a|ab)\\1?+(?<!é)");
        let st = Style { group: GroupStyle::Angle, backref: RefStyle::KAngle, possessive_as_atomic: true, ..Style::default() };
        assert_eq!(n.print_with(&st), "(?<g1>a|ab)(?>\\k<g1>?)(?<!é)");
        let st = Style { backref: RefStyle::Relative, ..Style::default() };
        assert_eq!(n.print_with(&st), "(a|ab)\\k<-1>?+(?<!é)");
        assert!(n.refs_closed());
        assert!(!Concat(vec![Backref(1), Node::group(Node::lit("a"))]).refs_closed());
        assert!(Repeat(Box::new(Repeat(Box::new(Node::lit("a")), 0, None, Mode::Greedy)), 0, None, Mode::Greedy).has_f1());
        assert_eq!(Repeat(Box::new(Repeat(Box::new(Node::lit("a")), 0, None, Mode::Greedy)), 1, None, Mode::Lazy).print(), "(?:a*)+?");
    }
}
