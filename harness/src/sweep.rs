//! Driver for the model-free API monitors (C05, C07, C09, C10, C11, C16): compiles every pattern
//! of a space under the panic / step-cap monitors and hands it to the property's monitor.
use crate::ast::Node;
use crate::common::*;
use fancy_regex::Regex;

pub struct Case<'a> {
    pub node: &'a Node,
    pub pattern: &'a str,
    pub re: &'a Regex,
    pub route: &'a Route,
    pub index: usize,
    /// built with RegexBuilder::case_insensitive(true) (the monitor should use texts in the other case)
    pub casei: bool,
}

pub struct SweepCfg<'a> {
    pub prop: &'a str,
    pub backtrack_limit: Option<usize>,
    pub step_cap: Option<u64>,
    pub shadow: bool,
    /// every `n`-th pattern is also built with RegexBuilder::case_insensitive(true) and handed to
    /// the monitor a second time (0 = never)
    pub casei_every: usize,
}

pub fn sweep(cfg: &SweepCfg<'_>, patterns: &[Node], f: impl Fn(&Case<'_>, &mut Acc) + Sync) -> Acc {
    par_run(patterns, cfg.shadow, cfg.step_cap, |i, p, acc| {
        if !p.refs_exist() {
            acc.count("excluded:ref-to-missing-group");
            return;
        }
        let s = p.print();
        let got = match cfg.backtrack_limit {
            Some(l) => compile_with(&s, |b| {
                b.backtrack_limit(l);
            }),
            None => compile(&s),
        };
        let re = match got {
            Got::Val(r) => r,
            Got::Err(e) => {
                acc.count(&format!("compile-err:{}", e.split(['(', ',']).take(2).collect::<Vec<_>>().join("(")));
                return;
            }
            o => {
                acc.violate(Violation::new(cfg.prop, "compile-panic", &s, "", 0, "Regex::new", "Ok or Err".into(), o.show()));
                return;
            }
        };
        let rt = route(&re);
        acc.count(match rt {
            Route::Wrapped => "route:wrapped",
            Route::Vm { .. } => "route:vm",
            Route::Unknown => "route:unknown",
        });
        let _ = hook_take();
        f(&Case { node: p, pattern: &s, re: &re, route: &rt, index: i, casei: false }, acc);
        let h = acc.take_hooks();
        if h.shadow_faults > 0 {
            acc.violate(Violation::new(cfg.prop, "shadow(C20)", &s, "", 0, "search", "restore/commit discipline".into(), h.first_fault.unwrap_or_default()));
        }
        if cfg.casei_every > 0 && i % cfg.casei_every == 0 {
            let got = compile_with(&s, |b| {
                b.case_insensitive(true);
                if let Some(l) = cfg.backtrack_limit {
                    b.backtrack_limit(l);
                }
            });
            if let Got::Val(re) = got {
                let rt = route(&re);
                let n0 = acc.violations.len();
                acc.count("patterns-also-built-with-case_insensitive(true)");
                f(&Case { node: p, pattern: &s, re: &re, route: &rt, index: i, casei: true }, acc);
                let _ = acc.take_hooks();
                for v in acc.violations.iter_mut().skip(n0) {
                    v.options = serde_json::json!({"case_insensitive": true, "backtrack_limit": cfg.backtrack_limit});
                    v.note = format!("{} [regex built with RegexBuilder::case_insensitive(true)]", v.note);
                }
            }
        }
    })
}
