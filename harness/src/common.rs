//! Shared machinery: running the crate under monitors, parallel drivers, evidence, verdicts.
use crate::refm::Caps;
use fancy_regex::{Regex, RegexBuilder};
use serde_json::{json, Value};
use std::collections::{BTreeMap, BTreeSet};
use std::fmt;
use std::panic::{catch_unwind, AssertUnwindSafe};
use std::sync::atomic::{AtomicUsize, Ordering};
use std::sync::Mutex;
use std::time::Instant;

pub const NTHREADS: usize = 16;

#[derive(Clone, Copy, Debug, PartialEq, Eq)]
pub enum Tier {
    Quick,
    Thorough,
}
impl Tier {
    pub fn name(self) -> &'static str {
        match self {
            Tier::Quick => "quick",
            Tier::Thorough => "thorough",
        }
    }
    pub fn pick<T>(self, q: T, t: T) -> T {
        match self {
            Tier::Quick => q,
            Tier::Thorough => t,
        }
    }
}

// ---------------------------------------------------------------------------------------------
// hooks shim

#[derive(Clone, Debug, Default)]
pub struct HookStats {
    pub runs: u64,
    pub insns: u64,
    pub backtracks: u64,
    pub last_backtracks: u64,
    pub pushes: u64,
    pub pops: u64,
    pub peak_branch_stack: u64,
    pub peak_oldsave: u64,
    pub delegate_calls: u64,
    pub aux_pushes: u64,
    pub cuts: u64,
    pub cuts_multi: u64,
    pub cuts_same_slot: u64,
    pub aux_mismatch: u64,
    pub neg_lookaround_fails: u64,
    pub uncounted_resumes: u64,
    pub shadow_checks: u64,
    pub shadow_faults: u64,
    pub first_fault: Option<String>,
}
impl HookStats {
    pub fn add(&mut self, o: &HookStats) {
        self.runs += o.runs;
        self.insns += o.insns;
        self.backtracks += o.backtracks;
        self.pushes += o.pushes;
        self.pops += o.pops;
        self.peak_branch_stack = self.peak_branch_stack.max(o.peak_branch_stack);
        self.peak_oldsave = self.peak_oldsave.max(o.peak_oldsave);
        self.delegate_calls += o.delegate_calls;
        self.aux_pushes += o.aux_pushes;
        self.cuts += o.cuts;
        self.cuts_multi += o.cuts_multi;
        self.cuts_same_slot += o.cuts_same_slot;
        self.aux_mismatch += o.aux_mismatch;
        self.neg_lookaround_fails += o.neg_lookaround_fails;
        self.uncounted_resumes += o.uncounted_resumes;
        self.shadow_checks += o.shadow_checks;
        self.shadow_faults += o.shadow_faults;
        if self.first_fault.is_none() {
            self.first_fault = o.first_fault.clone();
        }
    }
    pub fn json(&self) -> Value {
        json!({"hooks_enabled": HOOKS, "vm_runs": self.runs, "insns": self.insns, "backtracks": self.backtracks, "pushes": self.pushes,
            "pops": self.pops, "peak_branch_stack": self.peak_branch_stack, "peak_oldsave": self.peak_oldsave,
            "delegate_calls": self.delegate_calls, "aux_pushes": self.aux_pushes, "cuts": self.cuts, "cuts_multi": self.cuts_multi,
            "cuts_same_slot": self.cuts_same_slot, "aux_mismatch": self.aux_mismatch, "negative_lookaround_failures_checked": self.neg_lookaround_fails, "uncounted_resumes": self.uncounted_resumes, "shadow_checks": self.shadow_checks,
            "shadow_faults": self.shadow_faults})
    }
}

#[cfg(feature = "hooks")]
pub const HOOKS: bool = true;
#[cfg(not(feature = "hooks"))]
pub const HOOKS: bool = false;

#[cfg(feature = "hooks")]
pub fn hook_config(shadow: bool, step_cap: Option<u64>) {
    use fancy_regex::internal::verif::{verif_set_config, VerifConfig};
    verif_set_config(VerifConfig { shadow, step_cap });
}
#[cfg(not(feature = "hooks"))]
pub fn hook_config(_shadow: bool, _step_cap: Option<u64>) {}

#[cfg(feature = "hooks")]
pub fn hook_take() -> HookStats {
    let s = fancy_regex::internal::verif::verif_take_stats();
    HookStats {
        runs: s.runs,
        insns: s.insns,
        backtracks: s.backtracks,
        last_backtracks: s.last_backtracks,
        pushes: s.pushes,
        pops: s.pops,
        peak_branch_stack: s.peak_branch_stack,
        peak_oldsave: s.peak_oldsave,
        delegate_calls: s.delegate_calls,
        aux_pushes: s.aux_pushes,
        cuts: s.cuts,
        cuts_multi: s.cuts_multi,
        cuts_same_slot: s.cuts_same_slot,
        aux_mismatch: s.aux_mismatch,
        neg_lookaround_fails: s.neg_lookaround_fails,
        uncounted_resumes: s.uncounted_resumes,
        shadow_checks: s.shadow_checks,
        shadow_faults: s.shadow_faults,
        first_fault: s.first_fault,
    }
}
#[cfg(not(feature = "hooks"))]
pub fn hook_take() -> HookStats {
    HookStats::default()
}

#[cfg(feature = "hooks")]
fn is_step_cap(p: &(dyn std::any::Any + Send)) -> bool {
    p.is::<fancy_regex::internal::verif::VerifStepCapHit>()
}
#[cfg(not(feature = "hooks"))]
fn is_step_cap(_p: &(dyn std::any::Any + Send)) -> bool {
    false
}

// ---------------------------------------------------------------------------------------------
// running the crate

pub fn panic_msg(p: &(dyn std::any::Any + Send)) -> String {
    if let Some(s) = p.downcast_ref::<&str>() {
        s.to_string()
    } else if let Some(s) = p.downcast_ref::<String>() {
        s.clone()
    } else if is_step_cap(p) {
        "verif step cap".to_string()
    } else {
        "panic (non-string payload)".to_string()
    }
}

/// What a monitored call into the crate produced.
#[derive(Clone, Debug, PartialEq, Eq)]
pub enum Got<T> {
    Val(T),
    Err(String),
    Panic(String),
    StepCap,
}
impl<T> Got<T> {
    pub fn map<U>(&self, f: impl FnOnce(&T) -> U) -> Got<U> {
        match self {
            Got::Val(v) => Got::Val(f(v)),
            Got::Err(e) => Got::Err(e.clone()),
            Got::Panic(m) => Got::Panic(m.clone()),
            Got::StepCap => Got::StepCap,
        }
    }
    pub fn is_step_cap(&self) -> bool {
        matches!(self, Got::StepCap)
    }
    pub fn is_panic(&self) -> bool {
        matches!(self, Got::Panic(_))
    }
    pub fn val(&self) -> Option<&T> {
        match self {
            Got::Val(v) => Some(v),
            _ => None,
        }
    }
}
impl<T: fmt::Debug> Got<T> {
    pub fn show(&self) -> String {
        match self {
            Got::Val(v) => format!("{:?}", v),
            Got::Err(e) => format!("Err({})", e),
            Got::Panic(m) => format!("PANIC({})", m),
            Got::StepCap => "STEP-CAP".to_string(),
        }
    }
}

pub fn guard<T>(f: impl FnOnce() -> Result<T, fancy_regex::Error>) -> Got<T> {
    match catch_unwind(AssertUnwindSafe(f)) {
        Ok(Ok(v)) => Got::Val(v),
        Ok(Err(e)) => Got::Err(err_kind(&e)),
        Err(p) => {
            if is_step_cap(&*p) {
                Got::StepCap
            } else {
                Got::Panic(panic_msg(&*p))
            }
        }
    }
}
pub fn guard_plain<T>(f: impl FnOnce() -> T) -> Got<T> {
    guard(|| Ok(f()))
}

pub fn err_kind(e: &fancy_regex::Error) -> String {
    use fancy_regex::Error::*;
    match e {
        ParseError(pos, k) => format!("ParseError({}, {:?})", pos, k),
        CompileError(k) => {
            let s = format!("{:?}", k);
            format!("CompileError({})", s.chars().take(80).collect::<String>())
        }
        RuntimeError(k) => format!("RuntimeError({:?})", k),
        _ => format!("{:?}", e),
    }
}

pub fn compile(pattern: &str) -> Got<Regex> {
    guard(|| Regex::new(pattern))
}
pub fn compile_with(pattern: &str, f: impl FnOnce(&mut RegexBuilder)) -> Got<Regex> {
    guard(|| {
        let mut b = RegexBuilder::new(pattern);
        f(&mut b);
        b.build()
    })
}

pub fn caps_of(c: &fancy_regex::Captures<'_>) -> Caps {
    (0..c.len()).map(|i| c.get(i).map(|m| (m.start(), m.end()))).collect()
}
pub fn span_of(m: &fancy_regex::Match<'_>) -> (usize, usize) {
    (m.start(), m.end())
}

pub fn captures_from(re: &Regex, text: &str, from: usize) -> Got<Option<Caps>> {
    guard(|| Ok(re.captures_from_pos(text, from)?.map(|c| caps_of(&c))))
}
pub fn find_from(re: &Regex, text: &str, from: usize) -> Got<Option<(usize, usize)>> {
    guard(|| Ok(re.find_from_pos(text, from)?.map(|m| span_of(&m))))
}
pub fn is_match(re: &Regex, text: &str) -> Got<bool> {
    guard(|| re.is_match(text))
}
/// The whole sequence `find_iter` yields, cut off after `max` items (an `Err` item is recorded
/// as the error kind and iteration continues, to observe what follows it).
pub fn find_iter_seq(re: &Regex, text: &str, max: usize) -> Got<Vec<Result<(usize, usize), String>>> {
    guard_plain(|| re.find_iter(text).take(max).map(|m| m.map(|m| span_of(&m)).map_err(|e| err_kind(&e))).collect())
}
pub fn captures_iter_seq(re: &Regex, text: &str, max: usize) -> Got<Vec<Result<Caps, String>>> {
    guard_plain(|| re.captures_iter(text).take(max).map(|m| m.map(|c| caps_of(&c)).map_err(|e| err_kind(&e))).collect())
}

/// How the crate executes a pattern, read from `Regex::debug_print`.
#[derive(Clone, Debug, PartialEq, Eq)]
pub enum Route {
    Wrapped,
    Vm { insns: usize, delegates: Vec<String>, program: String },
    Unknown,
}
impl Route {
    pub fn is_vm(&self) -> bool {
        matches!(self, Route::Vm { .. })
    }
    pub fn n_delegates(&self) -> usize {
        match self {
            Route::Vm { delegates, .. } => delegates.len(),
            _ => 0,
        }
    }
}
struct Dbg<'a>(&'a Regex);
impl fmt::Display for Dbg<'_> {
    fn fmt(&self, f: &mut fmt::Formatter<'_>) -> fmt::Result {
        self.0.debug_print(f)
    }
}
pub fn route(re: &Regex) -> Route {
    let s = match catch_unwind(AssertUnwindSafe(|| format!("{}", Dbg(re)))) {
        Ok(s) => s,
        Err(_) => return Route::Unknown,
    };
    if s.starts_with("wrapped") {
        return Route::Wrapped;
    }
    let mut delegates = vec![];
    let mut insns = 0;
    for line in s.lines() {
        let Some((_, rest)) = line.split_once(": ") else { return Route::Unknown };
        insns += 1;
        if let Some(ix) = rest.find("pattern: \"") {
            // Debug-escaped string up to the closing quote before ", start_group"
            let tail = &rest[ix + 10..];
            if let Some(end) = tail.rfind("\", start_group") {
                delegates.push(tail[..end].to_string());
            } else {
                return Route::Unknown;
            }
        }
    }
    if insns == 0 {
        return Route::Unknown;
    }
    Route::Vm { insns, delegates, program: s }
}

// ---------------------------------------------------------------------------------------------
// verdicts, evidence

#[derive(Clone, Debug)]
pub struct Violation {
    pub property: String,
    pub monitor: String,
    pub pattern: String,
    pub text: String,
    pub offset: usize,
    pub api: String,
    pub options: Value,
    pub expected: String,
    pub observed: String,
    pub note: String,
}
impl Violation {
    pub fn new(property: &str, monitor: &str, pattern: &str, text: &str, offset: usize, api: &str, expected: String, observed: String) -> Violation {
        Violation {
            property: property.into(),
            monitor: monitor.into(),
            pattern: pattern.into(),
            text: text.into(),
            offset,
            api: api.into(),
            options: json!({}),
            expected,
            observed,
            note: String::new(),
        }
    }
    pub fn json(&self, seed: u64) -> Value {
        json!({"property": self.property, "monitor": self.monitor, "pattern": self.pattern, "text": self.text, "offset": self.offset,
            "api": self.api, "options": self.options, "expected": self.expected, "observed": self.observed, "note": self.note, "seed": seed})
    }
}

/// Per-worker accumulator, merged at the end of a parallel pass.
#[derive(Default, Debug)]
pub struct Acc {
    pub evals: u64,
    pub counters: BTreeMap<String, u64>,
    pub samples: Vec<Value>,
    pub violations: Vec<Violation>,
    pub n_violations: u64,
    /// finding id -> (count, first example)
    pub known: BTreeMap<String, (u64, String)>,
    pub inconclusive: u64,
    pub hook: HookStats,
    pub distinct: u64,
    pub distinct_sets: BTreeMap<String, BTreeSet<String>>,
    /// maxima (merged by max, unlike counters)
    pub maxima: BTreeMap<String, u64>,
}
impl Acc {
    pub fn count(&mut self, k: &str) {
        *self.counters.entry(k.to_string()).or_default() += 1;
    }
    pub fn add(&mut self, k: &str, n: u64) {
        *self.counters.entry(k.to_string()).or_default() += n;
    }
    pub fn max(&mut self, k: &str, v: u64) {
        let e = self.maxima.entry(k.to_string()).or_default();
        *e = (*e).max(v);
    }
    pub fn get(&self, k: &str) -> u64 {
        self.counters.get(k).copied().unwrap_or(0)
    }
    pub fn violate(&mut self, v: Violation) {
        self.n_violations += 1;
        if self.distinct_sets.get("violating-patterns").map_or(0, |s| s.len()) < 400 {
            self.distinct_sets.entry("violating-patterns".into()).or_default().insert(format!("{} [{}]", v.pattern, v.monitor));
        }
        if self.violations.len() < 8 {
            self.violations.push(v);
        }
    }
    pub fn known_hit(&mut self, id: &str, example: impl FnOnce() -> String) {
        let e = self.known.entry(id.to_string()).or_insert_with(|| (0, String::new()));
        if e.0 == 0 {
            e.1 = example();
        }
        e.0 += 1;
    }
    pub fn sample(&mut self, cap: usize, v: impl FnOnce() -> Value) {
        if self.samples.len() < cap {
            self.samples.push(v());
        }
    }
    pub fn take_hooks(&mut self) -> HookStats {
        let h = hook_take();
        self.hook.add(&h);
        h
    }
    pub fn merge(&mut self, o: Acc) {
        self.evals += o.evals;
        for (k, v) in o.counters {
            *self.counters.entry(k).or_default() += v;
        }
        for s in o.samples {
            if self.samples.len() < 24 {
                self.samples.push(s);
            }
        }
        self.n_violations += o.n_violations;
        for v in o.violations {
            if self.violations.len() < 16 {
                self.violations.push(v);
            }
        }
        for (k, (n, ex)) in o.known {
            let e = self.known.entry(k).or_insert_with(|| (0, String::new()));
            if e.0 == 0 {
                e.1 = ex;
            }
            e.0 += n;
        }
        self.inconclusive += o.inconclusive;
        self.hook.add(&o.hook);
        self.distinct += o.distinct;
        for (k, v) in o.maxima {
            self.max(&k, v);
        }
        for (k, s) in o.distinct_sets {
            self.distinct_sets.entry(k).or_default().extend(s);
        }
    }
}

static PROCESS_START: std::sync::OnceLock<Instant> = std::sync::OnceLock::new();
/// true once the wall-clock budget of this process (VERIF_TIME_BUDGET seconds, default 1500) is
/// used up; long inner loops poll it so that a crawling tree cannot hold a check for hours
pub fn over_budget() -> bool {
    let t0 = *PROCESS_START.get_or_init(Instant::now);
    let budget: u64 = std::env::var("VERIF_TIME_BUDGET").ok().and_then(|s| s.parse().ok()).unwrap_or(1500);
    t0.elapsed().as_secs() > budget
}

/// Run `f(index, item, acc)` over all items on NTHREADS worker threads (dynamic scheduling).
pub fn par_run<T: Sync>(items: &[T], shadow: bool, step_cap: Option<u64>, f: impl Fn(usize, &T, &mut Acc) + Sync) -> Acc {
    let next = AtomicUsize::new(0);
    let total = Mutex::new(Acc::default());
    let chunk = (items.len() / (NTHREADS * 64)).clamp(1, 256);
    let t0 = Instant::now();
    let budget_s: u64 = std::env::var("VERIF_TIME_BUDGET").ok().and_then(|s| s.parse().ok()).unwrap_or(1500);
    std::thread::scope(|sc| {
        for _ in 0..NTHREADS {
            std::thread::Builder::new()
                .stack_size(256 << 20)
                .spawn_scoped(sc, || {
                    hook_config(shadow, step_cap);
                    let _ = hook_take();
                    let mut acc = Acc::default();
                    loop {
                        let start = next.fetch_add(chunk, Ordering::Relaxed);
                        if start >= items.len() {
                            break;
                        }
                        // a tree that violates wholesale (or makes the VM crawl into its step cap)
                        // must not turn the check into an hours-long run: stop exploring once the
                        // verdict is beyond doubt or the wall-clock budget is used up
                        if acc.n_violations >= 200 {
                            acc.count("work-items-skipped-after-200-violations-in-one-worker");
                            continue;
                        }
                        if t0.elapsed().as_secs() > budget_s || over_budget() {
                            acc.count("work-items-skipped:time-budget-exhausted");
                            continue;
                        }
                        for i in start..(start + chunk).min(items.len()) {
                            if over_budget() || acc.n_violations >= 200 {
                                acc.count(if acc.n_violations >= 200 { "work-items-skipped-after-200-violations-in-one-worker" } else { "work-items-skipped:time-budget-exhausted" });
                                continue;
                            }
                            f(i, &items[i], &mut acc);
                        }
                    }
                    acc.take_hooks();
                    total.lock().unwrap().merge(acc);
                })
                .unwrap();
        }
    });
    total.into_inner().unwrap()
}

pub struct Ctx {
    pub prop: String,
    pub tier: Tier,
    pub seed: u64,
    pub start: Instant,
    pub known: crate::known::Known,
}

pub struct Outcome {
    pub acc: Acc,
    pub rule: String,
    pub distinct_nontrivial: u64,
    pub extra: Value,
    pub assumptions: Vec<String>,
    pub exhaustive: bool,
    pub level: &'static str,
    /// reasons for an inconclusive verdict (monitor saw too little)
    pub inconclusive_reasons: Vec<String>,
}
impl Outcome {
    pub fn new(acc: Acc) -> Outcome {
        Outcome { acc, rule: String::new(), distinct_nontrivial: 0, extra: json!({}), assumptions: vec![], exhaustive: false, level: "exploration", inconclusive_reasons: vec![] }
    }
    pub fn require(&mut self, ok: bool, what: &str) {
        if !ok {
            self.inconclusive_reasons.push(what.to_string());
        }
    }
}

pub fn verif_dir() -> String {
    std::env::var("VERIF_DIR").unwrap_or_else(|_| "/verif".to_string())
}

/// where evidence/ and replays/ go (VERIF_OUT redirects them, e.g. for runs against mutants)
pub fn out_dir() -> String {
    std::env::var("VERIF_OUT").unwrap_or_else(|_| verif_dir())
}

/// Write evidence, replays; print verdict lines; return the process exit code.
pub fn finish(ctx: &Ctx, mut out: Outcome) -> i32 {
    let dir = out_dir();
    let wall = ctx.start.elapsed().as_secs_f64();
    let mut code = 0;
    // known findings: print one line per finding that reproduced
    let mut known_json = serde_json::Map::new();
    for (id, (n, ex)) in &out.acc.known {
        if let Some(desc) = ctx.known.describe(&ctx.prop, id) {
            println!("KNOWN-FINDING: property={} {} [{}; {} attributed case(s) this run, e.g. {}]", ctx.prop, desc, id, n, ex);
            known_json.insert(id.clone(), json!({"cases": n, "example": ex}));
        }
    }
    // violations
    let _ = std::fs::create_dir_all(format!("{}/replays", dir));
    for (i, v) in out.acc.violations.iter().enumerate() {
        let path = format!("{}/replays/{}-{}-{}.json", dir, ctx.prop, ctx.tier.name(), i);
        let _ = std::fs::write(&path, serde_json::to_string_pretty(&v.json(ctx.seed)).unwrap());
        println!("VIOLATION property={} replay={}", v.property, path);
        println!("  monitor={} api={} pattern={:?} text={:?} offset={} expected={} observed={} {}", v.monitor, v.api, v.pattern, v.text, v.offset, v.expected, v.observed, v.note);
        code = 1;
    }
    if std::env::var("VERIF_DEBUG").is_ok() {
        if let Some(set) = out.acc.distinct_sets.get("violating-patterns") {
            for p in set {
                eprintln!("VIOLATING-PATTERN {}", p);
            }
        }
    }
    if out.acc.n_violations > out.acc.violations.len() as u64 {
        println!("  ({} violating cases in total; first {} written)", out.acc.n_violations, out.acc.violations.len());
    }
    if out.acc.get("work-items-skipped:time-budget-exhausted") > 0 {
        out.inconclusive_reasons.push("the wall-clock budget (VERIF_TIME_BUDGET) ran out before the space was explored".into());
    }
    if code == 0 && !out.inconclusive_reasons.is_empty() {
        for r in &out.inconclusive_reasons {
            println!("INCONCLUSIVE property={} {}", ctx.prop, r);
        }
        code = 2;
    }
    let mut cov = serde_json::Map::new();
    cov.insert("evaluations".into(), json!(out.acc.evals));
    cov.insert("distinct_nontrivial".into(), json!(out.distinct_nontrivial));
    cov.insert("rule".into(), json!(out.rule));
    if out.acc.samples.is_empty() {
        out.acc.samples.push(json!("no sample recorded"));
    }
    cov.insert("samples".into(), Value::Array(out.acc.samples.clone()));
    cov.insert("exhaustive".into(), json!(out.exhaustive));
    cov.insert("counters".into(), json!(out.acc.counters));
    cov.insert("maxima".into(), json!(out.acc.maxima));
    cov.insert("monitors".into(), out.acc.hook.json());
    cov.insert("inconclusive".into(), json!(out.acc.inconclusive));
    cov.insert("inconclusive_reasons".into(), json!(out.inconclusive_reasons));
    cov.insert("known_findings_hit".into(), Value::Object(known_json));
    if let Value::Object(m) = &out.extra {
        for (k, v) in m {
            cov.insert(k.clone(), v.clone());
        }
    }
    let ev = json!({
        "property_id": ctx.prop,
        "tier": ctx.tier.name(),
        "seed": ctx.seed,
        "level": out.level,
        "coverage": Value::Object(cov),
        "assumptions": out.assumptions,
        "wall_s": (wall * 100.0).round() / 100.0,
        "violations": out.acc.n_violations,
        "verdict": match code { 0 => "held on everything explored", 1 => "violated", _ => "inconclusive" },
    });
    let _ = std::fs::create_dir_all(format!("{}/evidence", dir));
    let path = format!("{}/evidence/{}.json", dir, ctx.prop);
    std::fs::write(&path, serde_json::to_string_pretty(&ev).unwrap()).expect("write evidence");
    println!(
        "{} {} seed={} evaluations={} distinct_nontrivial={} violations={} inconclusive={} wall={:.1}s -> {}",
        ctx.prop,
        ctx.tier.name(),
        ctx.seed,
        out.acc.evals,
        out.distinct_nontrivial,
        out.acc.n_violations,
        out.acc.inconclusive,
        wall,
        match code {
            0 => "HELD",
            1 => "VIOLATED",
            _ => "INCONCLUSIVE",
        }
    );
    code
}

pub fn show_caps(c: &Option<Caps>) -> String {
    match c {
        None => "no match".into(),
        Some(c) => format!("{:?}", c.iter().map(|g| g.map(|(a, b)| format!("{}..{}", a, b)).unwrap_or_else(|| "-".into())).collect::<Vec<_>>()),
    }
}
