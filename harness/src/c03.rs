//! C03 — results do not depend on how the pattern is split between VM and automata.
//! Metamorphic monitor: P vs inject(P, site, "(?=)"), no reference involved.
use crate::ast::Node;
use crate::common::*;
use crate::gen::{self, Gen};
use crate::rng::Rng;
use serde_json::json;

fn excluded(p: &Node) -> Option<&'static str> {
    if !p.refs_exist() {
        Some("ref-to-missing-group")
    } else if p.has_f1() && !p.f1_loops_all_hard() {
        Some("class-F1 (easy loop body)")
    } else if p.has_bare_backref_cond() {
        Some("bare-backref-condition")
    } else {
        None
    }
}

struct Base {
    node: Node,
    multi: usize,
    /// own texts (searched from a few offsets only) instead of the common text space
    texts: Option<Vec<String>>,
}

pub fn run(ctx: &Ctx) -> Outcome {
    let mut g = Gen::new(false);
    let mut bases: Vec<Base> = vec![];
    // all sites for the small trees, sampled sites (seeded) for the larger ones
    let all_sites_upto = ctx.tier.pick(3, 4);
    for n in g.upto(all_sites_upto) {
        bases.push(Base { node: n, multi: 0, texts: None });
    }
    let mut rng = Rng::new(ctx.seed ^ 0xC03);
    if ctx.tier == Tier::Quick {
        for n in g.of_size(4) {
            if rng.chance(1, 4) {
                bases.push(Base { node: n, multi: 1, texts: None });
            }
        }
    }
    for n in gen::products(&g.upto(2)) {
        bases.push(Base { node: n, multi: 0, texts: None });
    }
    for n in gen::random_patterns(ctx.seed, ctx.tier.pick(300, 6_000), false, 5, 10) {
        bases.push(Base { node: n, multi: 3, texts: None });
    }
    // counted repeats with bounds of two and three digits: the VM counts, a delegate gets the
    // bound re-serialised
    let big = gen::big_count_family(260);
    let n_big = big.len();
    for (n, t) in big {
        bases.push(Base { node: n, multi: 0, texts: Some(t) });
    }
    let cpa_texts = gen::texts(&["a", "b", "-"], 4);
    let n_cpa = {
        let fam = gen::common_prefix_alt_family();
        let n = fam.len();
        for p in fam {
            bases.push(Base { node: p, multi: 0, texts: Some(cpa_texts.clone()) });
        }
        n
    };
    let texts = crate::spaces::texts_c01(3);
    let fj = ctx.known.listed("C03", "FJ");
    let fy = ctx.known.listed("C03", "FY");
    let seed = ctx.seed;
    let acc = par_run(&bases, true, Some(2_000_000), |i, b, acc| {
        let p = &b.node;
        if let Some(why) = excluded(p) {
            acc.count(&format!("excluded:{}", why));
            return;
        }
        let s = p.print();
        let re = match compile(&s) {
            Got::Val(r) => r,
            Got::Err(_) => {
                acc.count("base-compile-err");
                return;
            }
            o => {
                acc.violate(Violation::new("C03", "compile-panic", &s, "", 0, "Regex::new", "Ok or Err".into(), o.show()));
                return;
            }
        };
        let rt = route(&re);
        let variants: Vec<Node> = if b.multi == 0 {
            gen::inject_all(p)
        } else {
            let mut r = Rng::new(seed ^ (i as u64).wrapping_mul(0x9E37));
            (0..b.multi).map(|k| gen::inject_random(p, &mut r, 1 + (k % 3))).collect()
        };
        // the (text, offset) cases of this base
        let mut cases: Vec<(&String, usize)> = vec![];
        match &b.texts {
            None => {
                for t in &texts {
                    for from in gen::offsets(t) {
                        cases.push((t, from));
                    }
                }
            }
            Some(own) => {
                for t in own {
                    let bs: Vec<usize> = gen::offsets(t).collect();
                    let mut froms = vec![0, *bs.get(1).unwrap_or(&0), bs[bs.len() / 2], bs[bs.len() - 1]];
                    froms.sort();
                    froms.dedup();
                    for from in froms {
                        cases.push((t, from));
                    }
                }
            }
        }
        // base results once
        let mut base_res = vec![];
        let _ = hook_take();
        let mut base_cap_hits = 0;
        for &(t, from) in &cases {
            let r = captures_from(&re, t, from);
            let h = acc.take_hooks();
            // a base that runs into the VM step cap has no result to compare (and on a tree whose
            // VM loops every further case would cost the full cap again)
            if r.is_step_cap() {
                base_cap_hits += 1;
                if base_cap_hits >= 2 {
                    break;
                }
            }
            base_res.push((r, h.aux_mismatch > 0));
        }
        if base_cap_hits >= 2 {
            acc.count("bases-abandoned-after-2-step-cap-hits");
            acc.inconclusive += 1;
            return;
        }
        let mut cap_hits = 0;
        for v in variants {
            if over_budget() || cap_hits >= 2 {
                acc.count(if cap_hits >= 2 { "variants-skipped-after-2-step-cap-hits" } else { "work-items-skipped:time-budget-exhausted" });
                break;
            }
            let vs = v.print();
            let re2 = match compile(&vs) {
                Got::Val(r) => r,
                Got::Err(_) => {
                    acc.count("variant-compile-err (skipped: property is conditional on compiling)");
                    continue;
                }
                o => {
                    acc.violate(Violation::new("C03", "compile-panic", &vs, "", 0, "Regex::new", "Ok or Err".into(), o.show()));
                    continue;
                }
            };
            let rt2 = route(&re2);
            let differs_in_split = rt.is_vm() != rt2.is_vm()
                || match (&rt, &rt2) {
                    (Route::Vm { delegates: a, .. }, Route::Vm { delegates: b, .. }) => {
                        let (mut a, mut b) = (a.clone(), b.clone());
                        a.sort();
                        b.sort();
                        a != b
                    }
                    _ => false,
                };
            let mut k = 0;
            let mut any_match = false;
            {
                for &(t, from) in &cases {
                    acc.evals += 1;
                    let got = captures_from(&re2, t, from);
                    let h = acc.take_hooks();
                    let (want, base_mm) = &base_res[k];
                    k += 1;
                    if h.shadow_faults > 0 {
                        acc.violate(Violation::new("C03", "shadow(C20)", &vs, t, from, "captures_from_pos", "restore/commit discipline".into(), h.first_fault.clone().unwrap_or_default()));
                    }
                    any_match |= matches!(got, Got::Val(Some(_)));
                    if got.is_step_cap() {
                        cap_hits += 1;
                    }
                    if &got != want {
                        if fj && p.has_cond() && (h.aux_mismatch > 0 || *base_mm) && !got.is_panic() && !want.is_panic() {
                            acc.known_hit("FJ", || format!("{} vs {} on {:?}@{}", s, vs, t, from));
                            continue;
                        }
                        if fy && p.has_common_prefix_alt() && !got.is_panic() && !want.is_panic() {
                            acc.known_hit("FY", || format!("{} vs {} on {:?}@{}: {} vs {}", s, vs, t, from, want.show(), got.show()));
                            continue;
                        }
                        let mut viol = Violation::new("C03", "injection", &vs, t, from, "captures_from_pos", want.show(), got.show());
                        viol.note = format!("base pattern {:?} gives the expected value; the variant only adds (?=)", s);
                        acc.violate(viol);
                    }
                }
            }
            if differs_in_split && any_match {
                acc.distinct += 1;
                if rt.is_vm() != rt2.is_vm() {
                    acc.count("pairs:wrapped-vs-vm");
                } else {
                    acc.count("pairs:different-delegates");
                }
                acc.sample(2, || json!({"base": s, "variant": vs, "base_route": if rt.is_vm() {"vm"} else {"wrapped"}, "variant_delegates": rt2.n_delegates()}));
            } else {
                acc.count("pairs:same-split-or-never-matched");
            }
        }
    });
    let mut acc = acc;
    crate::diff::run_witnesses(ctx, "C03", "F1", &mut acc);
    let mut out = Outcome::new(acc);
    out.distinct_nontrivial = out.acc.distinct;
    out.rule = format!("base patterns: all trees of <= {} nodes with every single injection site (before/after every node at any depth){}; 25 contexts x E(2) with every site; seeded random trees of 5-10 nodes with 1-3 random sites each; {} patterns with counted repeats of 10-256 with every site, on texts of n/10, n-1, n, n+1, 2n repetitions from 4 offsets; {} alternations whose branches start with the same element (family of finding FY) with every site, on all texts over a b - up to length 4. Each (base, variant) pair is run on all texts over {{a,b,c,é,\\n,-}} up to length 3 (plus the longer repetitive, carriage-return and UTF-8-boundary texts of the C01 space) from every offset and captures_from_pos must be identical. Non-trivial = distinct pairs whose route differs (wrapped vs VM) or whose multiset of delegated sub-patterns differs, and that matched at least once.", all_sites_upto, if ctx.tier == Tier::Quick { "; a seeded quarter of the 4-node trees with one random site" } else { "" }, n_big, n_cpa);
    out.assumptions = vec!["patterns with an unbounded repeat of a nullable body are left out (finding F1: the two engines differ there)".into()];
    let wv = out.acc.get("pairs:wrapped-vs-vm");
    let dd = out.acc.get("pairs:different-delegates");
    out.extra = json!({"pairs_wrapped_vs_vm": wv, "pairs_different_delegates": dd});
    out.require(wv > 0, "no wrapped-vs-VM pair was observed");
    out.require(dd > 0, "no pair with different delegate sets was observed");
    out
}
