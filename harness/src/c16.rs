//! C16 — group metadata is consistent across Regex, Captures and both engines.
use crate::ast::{GroupStyle, Node, RefStyle, Style};
use crate::common::*;
use crate::gen;
use crate::spaces;
use fancy_regex::Regex;
use serde_json::json;

/// name every second group (only for patterns without references: numbered references and
/// named groups must not be mixed)
fn name_some(n: &Node, counter: &mut usize, layout: usize, total: usize) -> Node {
    match n {
        Node::Group(_, c) => {
            *counter += 1;
            let me = *counter;
            let inner = name_some(c, counter, layout, total);
            // layouts: 0 = every second group, 1 = only the last group (any number of unnamed
            // groups before it), 2 = every third group starting with the third
            let named = match layout {
                0 => me % 2 == 1,
                1 => me == total,
                _ => me % 3 == 0,
            };
            Node::Group(if named { Some(format!("n{}", me)) } else { None }, Box::new(inner))
        }
        other => {
            let mut out = other.clone();
            let kids: Vec<Node> = other.children().iter().map(|c| name_some(c, counter, layout, total)).collect();
            for (i, k) in kids.into_iter().enumerate() {
                out = gen::replace_child(&out, i, k);
            }
            out
        }
    }
}

/// truth known to the generator: for each group index its name
fn truth(n: &Node, style: &Style) -> Vec<Option<String>> {
    fn walk(n: &Node, style: &Style, out: &mut Vec<Option<String>>) {
        if let Node::Group(name, _) = n {
            let idx = out.len();
            out.push(match (name, style.group) {
                (Some(nm), _) if nm.is_empty() => Some(format!("n{}", idx)),
                (Some(nm), _) => Some(nm.clone()),
                (None, GroupStyle::Plain) => None,
                (None, _) => Some(crate::ast::group_name(idx)),
            });
        }
        for c in n.children() {
            walk(c, style, out);
        }
    }
    let mut out = vec![None];
    walk(n, style, &mut out);
    out
}

fn check_one(re: &Regex, names: &[Option<String>], texts: &[String], pat: &str, acc: &mut Acc) -> bool {
    let want_len = names.len();
    let bad = |acc: &mut Acc, api: &str, t: &str, want: String, got: String| acc.violate(Violation::new("C16", "metadata", pat, t, 0, api, want, got));
    if re.captures_len() != want_len {
        bad(acc, "captures_len", "", want_len.to_string(), re.captures_len().to_string());
    }
    let cn: Vec<Option<String>> = re.capture_names().map(|n| n.map(|s| s.to_string())).collect();
    if cn != names {
        bad(acc, "capture_names", "", format!("{:?}", names), format!("{:?}", cn));
    }
    {
        // the names iterator driven in other ways than collect()
        let n = want_len;
        let cnt = re.capture_names().count();
        let last = re.capture_names().last().map(|x| x.map(|s| s.to_string()));
        let (lo, hi) = re.capture_names().size_hint();
        if cnt != n || last != names.last().cloned() || lo > n || hi.map_or(false, |h| h < n) {
            bad(acc, "capture_names().count() / .last() / .size_hint()", "", format!("{} / {:?} / bounds containing {}", n, names.last(), n), format!("{} / {:?} / ({}, {:?})", cnt, last, lo, hi));
        }
        for j in 0..=n {
            let nth = re.capture_names().nth(j).map(|x| x.map(|s| s.to_string()));
            if nth != names.get(j).cloned() {
                bad(acc, &format!("capture_names().nth({})", j), "", format!("{:?}", names.get(j)), format!("{:?}", nth));
            }
        }
        let mut it = re.capture_names();
        for _ in 0..n {
            it.next();
        }
        if it.next().is_some() || it.next().is_some() {
            bad(acc, "capture_names(): next() after the end", "", "None".into(), "Some".into());
        }
    }
    let mut matched = false;
    for t in texts {
        acc.evals += 1;
        let c = match re.captures(t) {
            Ok(Some(c)) => c,
            _ => continue,
        };
        matched = true;
        if c.len() != want_len {
            bad(acc, "Captures::len", t, want_len.to_string(), c.len().to_string());
        }
        let it: Vec<_> = c.iter().map(|m| m.map(|m| span_of(&m))).collect();
        let gets: Vec<_> = (0..c.len()).map(|i| c.get(i).map(|m| span_of(&m))).collect();
        if it != gets || it.len() != c.len() {
            bad(acc, "Captures::iter vs get", t, format!("{:?}", gets), format!("{:?}", it));
        }
        if c.get(0).is_none() {
            bad(acc, "Captures::get(0)", t, "Some".into(), "None".into());
        }
        // "iter() yields len() items" through every way of driving the iterator: next() by hand
        // (and again after the end), count, last, nth, skip, size_hint
        {
            let sp = |m: Option<fancy_regex::Match<'_>>| m.map(|m| span_of(&m));
            let n = c.len();
            let mut by_hand = c.iter();
            let mut k = 0;
            while let Some(item) = by_hand.next() {
                if k < n && sp(item) != gets[k] {
                    bad(acc, "Captures::iter() driven by next()", t, format!("{:?}", gets[k]), "another item".into());
                }
                k += 1;
                if k > n + 2 {
                    break;
                }
            }
            let after: Vec<bool> = (0..2).map(|_| by_hand.next().is_some()).collect();
            let tail_last = by_hand.last().is_some();
            if k != n || after != [false, false] || tail_last {
                bad(acc, "Captures::iter(): next() until None, two more next(), then last()", t, format!("{} items, then None, None, None", n), format!("{} items, then {:?}, last().is_some() = {}", k, after, tail_last));
            }
            let count = c.iter().count();
            let last = c.iter().last().map(sp);
            let want_last = gets.last().cloned();
            if count != n || last != want_last {
                bad(acc, "Captures::iter().count() / .last()", t, format!("{} / {:?}", n, want_last), format!("{} / {:?}", count, last));
            }
            for j in 0..=n + 1 {
                let nth = c.iter().nth(j).map(sp);
                let want = gets.get(j).cloned();
                let skl = c.iter().skip(j).last().map(sp);
                let want_skl = if j < n { want_last.clone() } else { None };
                let skc = c.iter().skip(j).count();
                if nth != want || skl != want_skl || skc != n.saturating_sub(j) {
                    bad(acc, &format!("Captures::iter().nth({j}) / .skip({j}).last() / .skip({j}).count()"), t, format!("{:?} / {:?} / {}", want, want_skl, n.saturating_sub(j)), format!("{:?} / {:?} / {}", nth, skl, skc));
                }
            }
            let (lo, hi) = c.iter().size_hint();
            if lo > n || hi.map_or(false, |h| h < n) {
                bad(acc, "Captures::iter().size_hint()", t, format!("bounds that contain {}", n), format!("({}, {:?})", lo, hi));
            }
        }
        // indices >= len give None - also the ones whose slot arithmetic would wrap
        for k in [c.len(), c.len() + 1, c.len() + 2, usize::MAX / 2, usize::MAX / 2 + 1, usize::MAX / 2 + 2, usize::MAX - 1, usize::MAX] {
            match std::panic::catch_unwind(std::panic::AssertUnwindSafe(|| c.get(k).map(|m| span_of(&m)))) {
                Ok(None) => {}
                Ok(Some(sp)) => bad(acc, &format!("Captures::get({})", k), t, "None".into(), format!("Some({:?})", sp)),
                Err(p) => bad(acc, &format!("Captures::get({})", k), t, "None".into(), format!("PANIC({})", panic_msg(&*p))),
            }
        }
        for (i, n) in names.iter().enumerate() {
            if let Some(n) = n {
                if c.name(n).map(|m| span_of(&m)) != c.get(i).map(|m| span_of(&m)) {
                    bad(acc, &format!("Captures::name({:?})", n), t, format!("{:?}", c.get(i).map(|m| span_of(&m))), format!("{:?}", c.name(n).map(|m| span_of(&m))));
                }
            }
        }
        for (i, n) in names.iter().enumerate() {
            if let (Some(n), Some(m)) = (n, c.get(i)) {
                // the Index impls must agree with get / name (and not panic for a matched group)
                if &c[n.as_str()] != m.as_str() || &c[i] != m.as_str() {
                    bad(acc, &format!("Index<&str> / Index<usize> for {:?}", n), t, format!("{:?}", m.as_str()), format!("{:?} / {:?}", &c[n.as_str()], &c[i]));
                }
            }
        }
        if c.name("no_such_group").is_some() {
            bad(acc, "Captures::name(no_such_group)", t, "None".into(), "Some".into());
        }
    }
    matched
}

pub fn run(ctx: &Ctx) -> Outcome {
    let sp = spaces::unrestricted(ctx.tier, ctx.seed ^ 16, 4, 4, 80_000, 200_000);
    let texts = spaces::texts_mb(ctx.tier.pick(3, 3));
    let angle = Style { group: GroupStyle::Angle, backref: RefStyle::KAngle, ..Style::default() };
    let pname = Style { group: GroupStyle::PName, backref: RefStyle::PEq, ..Style::default() };
    let plain = Style::default();
    let mut patterns = sp.patterns.clone();
    // rows of 2-6 sibling groups and nestings, so that names sit behind several unnamed groups
    for k in 2..=6usize {
        patterns.push(Node::Concat((0..k).map(|j| Node::group(if j % 2 == 0 { Node::lit("a") } else { Node::Empty })).collect()));
        patterns.push(Node::Concat((0..k).map(|_| Node::Repeat(Box::new(Node::group(Node::lit("a"))), 0, Some(1), crate::ast::Mode::Greedy)).collect()));
        let mut nest = Node::lit("a");
        for _ in 0..k {
            nest = Node::group(nest);
        }
        patterns.push(Node::Concat(vec![nest, Node::group(Node::Any(false))]));
    }
    let acc = par_run(&patterns, false, Some(3_000_000), |i, p, acc| {
        if !p.refs_exist() || p.n_groups() == 0 {
            return;
        }
        // spellings: plain, all groups named, every second group named (reference-free patterns)
        let mut variants: Vec<(Node, &Style)> = vec![(p.clone(), &plain), (p.clone(), if i % 2 == 0 { &angle } else { &pname })];
        if !p.has_refs() {
            for layout in 0..3 {
                let v = name_some(p, &mut 0, layout, p.n_groups());
                if v.any(&|n| matches!(n, Node::Group(Some(_), _))) {
                    variants.push((v, &plain));
                }
            }
        }
        // and the VM twin of each: an empty look-ahead appended
        let twins: Vec<(Node, &Style)> = variants.iter().map(|(n, st)| (Node::Concat(vec![n.clone(), Node::Look(Box::new(Node::Empty), false, false)]), *st)).collect();
        variants.extend(twins);
        let mut routes = (false, false);
        let mut named_multi = false;
        for (n, st) in &variants {
            let s = n.print_with(st);
            let re = match compile_with(&s, |b| {
                b.backtrack_limit(20_000);
            }) {
                Got::Val(r) => r,
                Got::Err(_) => {
                    acc.count("compile-err");
                    continue;
                }
                o => {
                    acc.violate(Violation::new("C16", "compile-panic", &s, "", 0, "Regex::new", "Ok or Err".into(), o.show()));
                    continue;
                }
            };
            let names = truth(n, st);
            let vm = route(&re).is_vm();
            match guard_plain(|| {
                let mut local = Acc::default();
                let m = check_one(&re, &names, &texts, &s, &mut local);
                (m, local)
            }) {
                Got::Val((m, local)) => {
                    acc.merge(local);
                    if m {
                        if vm {
                            routes.1 = true
                        } else {
                            routes.0 = true
                        }
                        named_multi |= names.len() >= 3 && names.iter().any(|n| n.is_some());
                    }
                }
                Got::StepCap => acc.inconclusive += 1,
                o => acc.violate(Violation::new("C16", "panic", &s, "", 0, "metadata accessors", "values".into(), o.show())),
            }
        }
        if routes.0 {
            acc.count("patterns-matched:wrapped");
        }
        if routes.1 {
            acc.count("patterns-matched:vm");
        }
        if named_multi && routes.0 && routes.1 {
            acc.distinct += 1;
            acc.sample(2, || json!({"pattern": variants[1].0.print_with(variants[1].1), "names": truth(&variants[1].0, variants[1].1)}));
        }
    });
    let mut out = Outcome::new(acc);
    out.distinct_nontrivial = out.acc.distinct;
    out.rule = format!("{}; every pattern with >= 1 group in three spellings (unnamed; all groups named with (?<gN>..) or (?P<gN>..) and named references; for reference-free patterns three partial naming layouts: every second group, only the last group, every third group) and for each the VM twin with an empty look-ahead appended; x {} texts. The generator knows the truth (group count, name of every index). Checked: captures_len, capture_names (length, each name at its index, index 0 unnamed; also through count / last / nth / size_hint / next past the end), and on every successful search Captures::len = captures_len, iter() yields len() items equal to get(i) - driven by next() (and past the end), count, last, nth, skip(j).last(), skip(j).count(), size_hint -, name(n) = get(index of n), get(0) is Some, get(i) is None for i in len..len+3 and for i around usize::MAX/2 and usize::MAX, an unknown name gives None. Non-trivial: distinct patterns with >= 2 groups of which >= 1 named that matched on both routes.", sp.describe, texts.len());
    let (w, v) = (out.acc.get("patterns-matched:wrapped"), out.acc.get("patterns-matched:vm"));
    out.extra = json!({"patterns_matched": {"wrapped": w, "vm": v}});
    out.require(w > 0 && v > 0, "both routes must be exercised");
    out
}
